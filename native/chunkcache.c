/* LD_PRELOAD shim for the verification harness only (never loaded by the tool).
 *
 * CPython >= 3.11 allocates interpreter "data stack" chunks of 16 KiB with
 * mmap() and releases them with munmap() every time the call depth crosses a
 * chunk boundary.  The recursive visitors of the code under test cross such a
 * boundary tens of thousands of times per run; every fresh mapping is a page
 * fault, and on this sandbox page faults do not scale across processes (16
 * concurrent runs were 30x slower than one).  The shim keeps a small free list
 * of exactly those 16 KiB anonymous mappings.  Behaviour of the interpreter is
 * unchanged (CPython initialises the chunk header itself).
 */
#define _GNU_SOURCE
#include <sys/mman.h>
#include <sys/syscall.h>
#include <unistd.h>
#include <stddef.h>
#include <stdint.h>

#define CHUNK 16384
#define NCACHE 256
#define NOWN 1024

static void *cache[NCACHE];
static int ncache;
static void *own[NOWN];      /* addresses we handed out as 16 KiB chunks */
static int nown;
static volatile int lock;

static void lk(void) { while (__sync_lock_test_and_set(&lock, 1)) { } }
static void ul(void) { __sync_lock_release(&lock); }

static void *raw_mmap(void *a, size_t l, int p, int f, int fd, off_t o) {
    return (void *)syscall(SYS_mmap, a, l, p, f, fd, o);
}

void *mmap(void *addr, size_t len, int prot, int flags, int fd, off_t off) {
    if (addr == NULL && len == CHUNK && fd == -1 &&
        (flags & MAP_ANONYMOUS) && (flags & MAP_PRIVATE) &&
        prot == (PROT_READ | PROT_WRITE)) {
        void *p = NULL;
        lk();
        if (ncache > 0) p = cache[--ncache];
        ul();
        if (p) return p;
        p = raw_mmap(addr, len, prot, flags, fd, off);
        if (p != MAP_FAILED) {
            lk();
            if (nown < NOWN) own[nown++] = p;
            ul();
        }
        return p;
    }
    return raw_mmap(addr, len, prot, flags, fd, off);
}

void *mmap64(void *addr, size_t len, int prot, int flags, int fd, off_t off)
    __attribute__((alias("mmap")));

int munmap(void *addr, size_t len) {
    if (len == CHUNK) {
        int mine = 0, kept = 0;
        lk();
        for (int i = 0; i < nown; i++) if (own[i] == addr) { mine = 1; break; }
        if (mine && ncache < NCACHE) { cache[ncache++] = addr; kept = 1; }
        if (mine && !kept) {
            for (int i = 0; i < nown; i++) if (own[i] == addr) { own[i] = own[--nown]; break; }
        }
        ul();
        if (kept) return 0;
    }
    return (int)syscall(SYS_munmap, addr, len);
}
