#!/venv/bin/python
"""Entry point: check.py <ID> --tier quick|thorough [--replay FILE]

exit 0: property held on everything explored (KNOWN-FINDING lines may be printed)
exit 1: VIOLATION property=<ID> replay=<path>
exit 2: harness problem (never a verdict)
"""
import argparse
import importlib
import os
import sys

sys.path.insert(0, os.path.dirname(os.path.abspath(__file__)))
from sim import boot  # noqa: E402


def main():
    ap = argparse.ArgumentParser()
    ap.add_argument('id')
    ap.add_argument('--tier', default=os.environ.get('VERIF_TIER', 'quick'),
                    choices=['quick', 'thorough'])
    ap.add_argument('--replay')
    ap.add_argument('--seed', type=int, default=None)
    a = ap.parse_args()
    boot.reexec_if_needed()
    boot.boot()
    seed = a.seed if a.seed is not None else int(os.environ.get('VERIF_SEED', '0') or 0)
    os.environ['VERIF_TIER_INTERNAL'] = a.tier
    mod = importlib.import_module('checks.' + a.id.lower())
    check = mod.CHECK
    from sim import runner
    if a.replay:
        sys.exit(runner.run_replay(check, a.replay))
    sys.exit(runner.run_check(check, a.tier, seed))


if __name__ == '__main__':
    main()
