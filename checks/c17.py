"""C17 -- generation switches are honoured."""
import random as _pyrandom

from sim import core, prov, walk
from sim.core import h64
from sim.pcheck import PipelineCheck


def _tp():
    from src.ir import types as tp
    return tp


class C17(PipelineCheck):
    ID = 'C17'
    RULE = ('one evaluation = one simulated generation run (choice tape + buggify) under one '
            'of the 16 switch combinations x 4 languages (all 64 combinations are cycled '
            'through, depth 1-7); the oracle walks every type occurrence reachable from every '
            'AST node attribute (declared/recorded types, type arguments, bounds, constructor '
            'parameters, supertypes, bottom-constant casts, lambda/reference signatures); '
            'distinct non-trivial = distinct (switches, language, tape digest) with a finished '
            'program')
    ASSUMPTIONS = ['a star projection counts as a use-site projection',
                   'only the program returned by Generator.generate() is examined (the '
                   'property speaks of generated programs, not of mutated ones)']
    PROBES = ('usv_off', 'contra_off', 'bounded_off', 'pfunc_off', 'has_wildcards',
              'has_contra_projection', 'has_bounded_tparam', 'has_pfunc',
              'has_variant_class_tparam')
    TRANSLATE = False
    ROUNDS = (0,)
    tiers = {'quick': {'runs': 900, 'wall_s': 100, 'run_timeout_s': 300},
             'thorough': {'runs': 14000, 'wall_s': 1100, 'run_timeout_s': 900}}

    def make_config(self, run_seed):
        c = core.swarm_config(run_seed, langs=self.LANGS, max_depth=self.MAX_DEPTH,
                              rounds=(0,))
        r = _pyrandom.Random(h64(run_seed, 'c17'))
        combo = r.randrange(64)
        c['language'] = core.LANGS[combo % 4]
        bits = combo // 4
        c['dis_usv'] = bool(bits & 1)
        c['dis_contra'] = bool(bits & 2)
        c['dis_bounded'] = bool(bits & 4)
        c['dis_pfunc'] = bool(bits & 8)
        c['only_cp'] = True
        return c

    def before_run(self, run, sim, plan):
        prov.install()

    def judge(self, run, obs, sim, plan):
        tp = _tp()
        from src.ir import ast
        c = plan['config']
        v = {}
        probes = {}
        obl = {'type_occurrences': 0, 'tparams': 0, 'functions': 0}
        for k, n in (('dis_usv', 'usv_off'), ('dis_contra', 'contra_off'),
                     ('dis_bounded', 'bounded_off'), ('dis_pfunc', 'pfunc_off')):
            if c[k]:
                probes[n] = 1
        if run.program is None:
            return [], {'probes': probes, 'obligations': obl}
        lang = c['language']

        def add(rule, sw, poskind, creator, detail):
            sig = '%s|%s' % (sw, '<'.join(creator.split('<')[:2]))
            if sig not in v:
                v[sig] = {'rule': rule, 'sig': sig, 'detail': detail}

        def poskind(node, attr, ppath):
            a = attr.split('[')[0].split('{')[0]
            first = ppath.split('.')[1] if ppath.count('.') else ''
            first = ''.join(ch for ch in first if not ch.isdigit())
            return '%s.%s%s' % (type(node).__name__, a, ('.' + first) if first else '')

        seen = set()
        for node, attr, root, part, ppath in walk.iter_type_occurrences(run.program):
            obl['type_occurrences'] += 1
            if isinstance(part, tp.WildCardType):
                probes['has_wildcards'] = 1
                if vval(part.variance) == 2:
                    probes['has_contra_projection'] = 1
                if c['dis_usv']:
                    add('no-projection', 'use_site_variance', poskind(node, attr, ppath),
                        prov.of(part),
                        '%s.%s%s holds projection %s (lang=%s); created by %s' % (
                            type(node).__name__, attr, ppath, part, lang, prov.of(part)))
                if c['dis_contra'] and vval(part.variance) == 2:
                    add('no-contra-projection', 'use_site_contravariance',
                        poskind(node, attr, ppath), prov.of(part),
                        '%s.%s%s holds contravariant projection %s (lang=%s)' % (
                            type(node).__name__, attr, ppath, part, lang))
            elif isinstance(part, tp.TypeParameter):
                if id(part) in seen:
                    continue
                seen.add(id(part))
                obl['tparams'] += 1
                if part.bound is not None:
                    probes['has_bounded_tparam'] = 1
                    if c['dis_bounded']:
                        add('no-bounds', 'bounded_type_parameters',
                            poskind(node, attr, ppath), prov.of(part),
                            '%s.%s%s: type parameter %s has bound %s (lang=%s)' % (
                                type(node).__name__, attr, ppath, part.name, part.bound, lang))
        for node, path, parents in walk.iter_nodes(run.program):
            if isinstance(node, ast.FunctionDeclaration):
                obl['functions'] += 1
                if node.type_parameters:
                    probes['has_pfunc'] = 1
                    if c['dis_pfunc']:
                        add('no-parameterized-functions', 'parameterized_functions',
                            'FunctionDeclaration', 'gen_func_decl',
                            'function %s declares type parameters %s (lang=%s)' % (
                                node.name, node.type_parameters, lang))
                for p in node.type_parameters:
                    if vval(p.variance) != 0:
                        add('function-tparam-invariant', 'function_variance',
                            'FunctionDeclaration.type_parameters', prov.of(p),
                            'function %s has variant type parameter %s' % (node.name, p))
            elif isinstance(node, ast.ClassDeclaration):
                for p in node.type_parameters:
                    if vval(p.variance) != 0:
                        probes['has_variant_class_tparam'] = 1
                        if lang in ('java', 'groovy'):
                            add('no-declaration-site-variance', 'decl_site_variance_' + lang,
                                'ClassDeclaration.type_parameters', prov.of(p),
                                'class %s declares variant type parameter %s in %s' % (
                                    node.name, p, lang))
            elif isinstance(node, ast.FunctionCall):
                if node.type_args and c['dis_pfunc']:
                    add('no-parameterized-functions', 'parameterized_functions',
                        'FunctionCall.type_args', 'gen_func_call',
                        'call of %s carries type arguments %s' % (node.func, node.type_args))
        extra = {'probes': probes, 'obligations': obl,
                 'sample': {'config': c, 'ndraws': len(sim.rand.tape),
                            'type_occurrences_walked': obl['type_occurrences'],
                            'type_parameters_seen': obl['tparams'],
                            'functions_seen': obl['functions'],
                            'probes': sorted(probes)}}
        return list(v.values()), extra

    def feature(self, run, sim, plan):
        if run.program is None:
            return ''
        c = plan['config']
        return '%s%d%d%d%d-%s' % (c['language'], c['dis_usv'], c['dis_contra'],
                                  c['dis_bounded'], c['dis_pfunc'], sim.rand.digest())


def vval(v):
    return getattr(v, 'value', v)


CHECK = C17()
