"""C11 -- translation is a pure function of the program."""
import pickle
import random as _pyrandom

from sim import pipeline, snap
from sim.core import h64, SimAbort
from sim.pcheck import PipelineCheck


class StageCollector(pipeline.Observer):
    def __init__(self):
        self.stages = []     # (name, pickled program)

    def on_generated(self, run, program):
        self.stages.append(('generated', pickle.dumps(program, protocol=4)))

    def after_transform(self, run, name, program, transformer, index):
        n = 'erased%d' % (index + 1) if name == 'TypeErasure' else 'overwritten'
        self.stages.append((n, pickle.dumps(program, protocol=4)))


PKGS = ('src.alpha', 'src.beta')


class C11(PipelineCheck):
    ID = 'C11'
    RULE = ('one evaluation = one simulated pipeline run whose stage programs (generated, each '
            'erasure, overwritten) are then fed to a seeded translator history of 14-30 '
            'translate(program_i, translator_j, package) operations over shared / fresh / '
            'other-language translator objects (P8), always containing the driver\'s own '
            'pattern (original, keep-all copies, mutated, package switch, incorrect) and ending '
            'with a sweep of every program through the shared translator of every language; after '
            'every operation the text must equal the first translation of that program by a '
            'fresh translator and the program snapshot must be unchanged; distinct non-trivial = '
            'distinct (tape digest, history) with >= 2 stage programs')
    ASSUMPTIONS = ['a translator that raised is discarded; the exception is C18\'s business',
                   'the program is compared by a labelled structural snapshot of every attribute '
                   '(sim/snap.asnap), translator-independent']
    PROBES = ('cross_language', 'shared_reuse', 'package_switch', 'overwritten_stage',
              'second_program',
              'translator_exception')
    MAX_DEPTH = (1, 6)
    ROUNDS = (0, 1, 1, 2)
    tiers = {'quick': {'runs': 320, 'wall_s': 100, 'run_timeout_s': 300},
             'thorough': {'runs': 4500, 'wall_s': 1100, 'run_timeout_s': 900}}

    def observer(self, sim, plan):
        return StageCollector()

    def make_history(self, run_seed, nstages, lang):
        r = _pyrandom.Random(h64(run_seed, 'history'))
        ops = []
        # the driver's own pattern on the shared translator of the run's language
        for i in range(nstages - 1):
            ops.append((i, lang, 'shared', 0))
            if r.random() < 0.5:
                ops.append((i, lang, 'shared', 0))     # keep-all translates twice
        ops.append((nstages - 1, lang, 'shared', 1))  # package switch, incorrect program
        n = r.randint(8, 22)
        langs = ['java', 'kotlin', 'groovy', 'scala']
        for _ in range(n):
            i = r.randrange(nstages)
            l = lang if r.random() < 0.55 else r.choice(langs)
            which = r.choice(['shared', 'shared', 'fresh', 'shared2'])
            ops.append((i, l, which, r.randrange(2)))
        r.shuffle(ops)
        # closing sweep: every program once more through the shared translator of every
        # language, so that each (program, language) pair is translated by a translator object
        # with a history at least once per run (a translator-state leak that needs one
        # particular construct then shows in every run whose programs contain it)
        sweep = [(i, l, 'shared', r.randrange(2)) for l in langs for i in range(nstages)]
        r.shuffle(sweep)
        return ops + sweep

    def judge(self, run, obs, sim, plan):
        from src import utils
        c = plan['config']
        lang = c['language']
        probes = {}
        if run.status != 'ok' or len(obs.stages) < 1:
            return [], {'probes': probes, 'feature_ok': False}
        T = pipeline.translators()
        opts = {'cast_numbers': bool(c.get('cast_numbers'))}
        programs = [pickle.loads(b) for _, b in obs.stages]
        names = [n for n, _ in obs.stages]
        # a second, unrelated program of the same session (the driver translates many
        # programs with... a translator per program, but the property quantifies over ALL
        # histories of one translator object): generated as the driver does, after
        # resetting the word pool, so that identifiers may recur in other roles
        try:
            from src.generators.generator import Generator
            from sim.core import apply_config
            utils.random.reset_word_pool()
            apply_config(dict(c, max_depth=min(c.get('max_depth', 3), 4)))
            other = Generator(language=lang).generate()
            programs.append(other)
            names.append('other')
            probes['second_program'] = 1
        except SimAbort:
            raise
        except Exception:   # noqa  (C18's business)
            pass
        if 'overwritten' in names:
            probes['overwritten_stage'] = 1
        ops = plan.get('history') or self.make_history(plan['run_seed'], len(programs), lang)
        if names[-1] == 'other' and not plan.get('history'):
            # make sure the unrelated program is seen by the shared translators early and late
            io = len(programs) - 1
            ops = [(io, lang, 'shared', 0)] + ops[:len(ops) // 2] + \
                  [(io, lang, 'shared2', 0)] + ops[len(ops) // 2:] + [(io, lang, 'shared', 1)]
        plan['history'] = ops
        digests = [snap.digest(snap.asnap(p)) for p in programs]
        reference = {}
        shared = {}
        dead = set()
        v = []
        nops = 0
        log = []
        for (i, l, which, pk) in ops:
            i = min(i, len(programs) - 1)
            p = programs[i]
            key = (i, l, pk)
            try:
                if key not in reference:
                    tr = T[l](PKGS[pk], dict(opts))
                    reference[key] = utils.translate_program(tr, p)
                    d = snap.digest(snap.asnap(p))
                    if d != digests[i]:
                        v.append(self._v('program-mutated', l, names[i], 'fresh', c,
                                         'first translation to %s changed the %s program' % (
                                             l, names[i])))
                        digests[i] = d
                if which == 'fresh':
                    tr = T[l](PKGS[pk], dict(opts))
                else:
                    k = (l, which)
                    if k in dead:
                        continue
                    tr = shared.get(k)
                    if tr is None:
                        tr = shared[k] = T[l](PKGS[pk], dict(opts))
                    else:
                        probes['shared_reuse'] = 1
                    if tr.package != PKGS[pk]:
                        probes['package_switch'] = 1
                    tr.package = PKGS[pk]
                text = utils.translate_program(tr, p)
            except SimAbort:
                raise
            except Exception as e:   # noqa
                probes['translator_exception'] = 1
                dead.add((l, which))
                shared.pop((l, which), None)
                continue
            nops += 1
            if l != lang:
                probes['cross_language'] = 1
            log.append('%s:%s:%s:%d' % (names[i], l, which, pk))
            sim.event('op %s %s %s %d %08x' % (names[i], l, which, pk, pipeline.hash_text(text)))
            if text != reference[key]:
                v.append(self._v('text-differs', l, names[i], which, c,
                                 'translation of the %s program to %s by the %s translator '
                                 '(after %d earlier operations: %s) differs from a fresh '
                                 'translator\'s text; first difference at offset %d' % (
                                     names[i], l, which, nops - 1, ' '.join(log[-6:-1]),
                                     _first_diff(text, reference[key]))))
            d = snap.digest(snap.asnap(p))
            if d != digests[i]:
                v.append(self._v('program-mutated', l, names[i], which, c,
                                 'translating the %s program to %s modified the program' % (
                                     names[i], l)))
                digests[i] = d
        extra = {'probes': probes,
                 'obligations': {'text-equal': nops, 'program-unchanged': nops},
                 'nops': nops,
                 'sample': {'config': c, 'stages': names, 'history': log[:40],
                            'ndraws': len(sim.rand.tape)}}
        seen = set()
        out = []
        for x in v:
            if x['sig'] not in seen:
                seen.add(x['sig'])
                out.append(x)
        return out, extra

    @staticmethod
    def _v(rule, lang, stage, which, c, detail):
        st = stage.rstrip('0123456789')
        return {'rule': rule, 'sig': '%s|%s|%s|%s' % (rule, lang, st, which.rstrip('2')),
                'detail': detail}

    def fault_counts(self, sim, plan):
        f = super().fault_counts(sim, plan)
        f['P8_translator_history_ops'] = len(plan.get('history') or ())
        return f

    def feature(self, run, sim, plan):
        if run.status != 'ok':
            return ''
        return sim.rand.digest() + str(len(plan.get('history') or ()))


def _first_diff(a, b):
    for i, (x, y) in enumerate(zip(a, b)):
        if x != y:
            return i
    return min(len(a), len(b))


CHECK = C11()
