"""C18 -- the pipeline never fails internally and always terminates."""
import sys

from sim import driver, pipeline
from sim.pcheck import PipelineCheck

# import the driver before any simulated run: its import draws from src.utils.random, which
# must not happen inside (and be charged to) a run
driver.hmod()


def ast_depth(program):
    """max nesting depth of the AST (children() edges), iterative"""
    best = 0
    stack = [(d, 1) for d in program.children()]
    while stack:
        node, dep = stack.pop()
        if dep > best:
            best = dep
        try:
            ch = node.children()
        except Exception:   # noqa
            ch = ()
        for c in ch:
            if c is not None and hasattr(c, 'children'):
                stack.append((c, dep + 1))
    return best


class C18(PipelineCheck):
    ID = 'C18'
    RULE = ('one evaluation = one simulated pipeline run (generate, 0-3 erasure rounds, '
            'overwriting, translation after every stage) under a seeded choice tape with '
            'swarm configuration (language, 4 switches, max_depth 1-9, rounds, timeout), '
            'buggify bias, early timer fires and clock jumps; 30 % of the runs continue as a '
            'session of 3-7 further programs in the same process with a small identifier pool '
            '(P9); 12 % of the evaluations are instead whole sessions of the real hephaestus.py '
            'with the real generator on the simulated worker pool with process-private module '
            'state (P10); distinct non-trivial = distinct '
            'choice-tape digest of a run whose generation stage finished')
    ASSUMPTIONS = [
        'work is measured in deterministic work units (tape entries + visitor steps + '
        'objects deep-copied), never in wall time',
        'nesting bound calibrated as AST depth <= 6*max_depth + 30',
        'budget-exhaustion judged as a rate over unbiased runs (<= 25 %)',
    ]
    PROBES = ('depth>=7', 'rounds>=2', 'timer_fired', 'erasure_transformed',
              'overwriting_transformed', 'session_programs', 'session_pool_half_used',
              'driver_sessions', 'driver_pool_sessions', 'driver_programs')
    MAX_DEPTH = (1, 9)
    COMPONENTS = {
        'real': PipelineCheck.COMPONENTS['real'] + [
            'hephaestus.py (main, run, run_parallel, _run, gen_program, gen_program_mul, '
            'process_*_transformations, check_oracle*, update_stats) and '
            'src/modules/processor.py in the P10 driver sessions (12 % of the evaluations)'],
        'simulated': PipelineCheck.COMPONENTS['simulated'] + [
            'P10: compiler process (scripted peer that agrees with every expectation), '
            'multiprocessing.Pool with process-private module state per worker, time, mkdtemp'],
        'stub': ['in the pipeline runs (88 %) the hephaestus.gen_program call pattern is '
                 'reproduced by sim/pipeline.py', 'src/args.py configuration block mirrored by '
                 'sim.core.apply_config'],
    }
    tiers = {'quick': {'runs': 320, 'wall_s': 60, 'run_timeout_s': 300},
             'thorough': {'runs': 6000, 'wall_s': 1100, 'run_timeout_s': 900}}

    def before_run(self, run, sim, plan):
        sys.setrecursionlimit(2 * 1000 + 200)

    # -- P10: whole driver sessions with the real generator ---------------------------------
    DRIVER_SHARE = 0.12

    @staticmethod
    def make_driver_plan(run_seed):
        import random as _r
        from sim.core import h64, LANGS
        r = _r.Random(h64(run_seed, 'c18-driver'))
        return {'run_seed': run_seed, 'driver': True, 'language': r.choice(LANGS),
                'mode': 'pool' if r.random() < 0.6 else 'seq', 'workers': r.randint(1, 3),
                'iterations': r.randint(8, 16), 'batch': r.choice([1, 2, 3, 6]),
                't': r.choice([0, 0, 1]), 'P': r.random() < 0.3, 'keep_all': r.random() < 0.2,
                'dry_run': False, 'generator': 'real', 'max_depth': r.randint(1, 3),
                'word_pool': r.randint(150, 260), 'print_stacktrace': True,
                'programs': {}, 'batches': {}}

    def make_plan(self, run_seed):
        from sim.core import h64
        if (h64(run_seed, 'c18-kind') % 1000) < 1000 * self.DRIVER_SHARE:
            return self.make_driver_plan(run_seed)
        return super().make_plan(run_seed)

    def run_one(self, run_seed, plan=None):
        if plan is None:
            plan = self.make_plan(run_seed)
        if not plan.get('driver'):
            return super().run_one(run_seed, plan)
        return self.run_driver(plan)

    def minimise(self, plan, sig, max_exec=40):
        if plan.get('driver'):
            return self.minimise_driver(plan, sig)
        return super().minimise(plan, sig, max_exec)

    def minimise_driver(self, plan, sig):
        best = dict(plan)
        for key, vals in (('iterations', (3, 5, 8)), ('workers', (1,)), ('batch', (1,)),
                          ('t', (0,)), ('keep_all', (False,)), ('P', (True,))):
            for x in vals:
                if best.get(key) == x or (key == 'iterations' and x >= best['iterations']):
                    continue
                cand = dict(best)
                cand[key] = x
                if self._reproduces(cand, sig):
                    best = cand
                    break
        return best

    def run_driver(self, plan):
        """One whole session of the real hephaestus.py with the REAL generator, mutations and
        translators (scripted compiler that agrees with every expectation), sequentially or on
        the simulated worker pool with process-private module state, and with a small
        identifier pool so that 8-16 programs stand for a session of hundreds.  Every program
        the driver reports as failed -- gen_program converts any exception of the pipeline into
        a 'tool failure' that the user sees as a fault of the compiler under test -- is an
        internal failure, unless that one program drew the whole identifier pool by itself."""
        import re
        from sim.core import Sim, SimBudget
        sim = Sim(plan['run_seed'], buggify=False, budget=6_000_000, language=plan['language'])
        sim.install(plan['language'])
        s = driver.Session(plan['run_seed'], plan, sim)
        status = 'ok'
        v = []
        probes = {'driver_sessions': 1}
        try:
            try:
                s.run()
            except SimBudget:
                status = 'budget'
            if status == 'ok':
                big = max([u for u, _ in s.words_drawn.values()] or [0])
                if s.exc is not None and 'Cannot choose from an empty sequence' in str(s.exc) \
                        and big >= s.pool_size - 2:
                    # the knob's doing: one program drew the whole (small) pool by itself and
                    # _run found no package name left for the next program of the batch
                    probes['driver_pool_exhausted_by_one_program'] = 1
                elif s.exc is not None:
                    v.append({'rule': 'no-exception-in-session',
                              'sig': 'exc|driver-session|%s' % driver.exc_brief(s.exc).split(':')[0],
                              'detail': 'the session (mode=%s) ended with %s' % (
                                  plan['mode'], driver.exc_brief(s.exc))})
                for pid in sorted(s.results):
                    res = s.results[pid]
                    probes['driver_programs'] = probes.get('driver_programs', 0) + 1
                    if not res.failed:
                        continue
                    err = str(res.stats.get('error') or '')
                    used, left = s.words_drawn.get(pid, (0, 0))
                    if 'Cannot choose from an empty sequence' in err and used >= s.pool_size:
                        continue          # this one program drew the whole pool by itself
                    last = err.strip().split('\n')[-1][:120]
                    frames = re.findall(r'File "[^"]*/(?:src/[^"]*/)?([^"/]+)", line \d+, in (\w+)',
                                        err)[-3:]
                    v.append({'rule': 'no-exception-in-session',
                              'sig': 'exc|driver-gen_program|%s|%s' % (
                                  last.split(':')[0], '<'.join('%s:%s' % f for f in reversed(frames))),
                              'detail': 'program %d of a %s session (%s, depth %d, %d worker(s), '
                                        'identifier pool of %d words; this program had drawn %d, '
                                        '%d were left) was reported as a tool failure: %s' % (
                                            pid, plan['mode'], plan['language'], plan['max_depth'],
                                            plan['workers'], s.pool_size, used, left, last)})
                    break
                if plan['mode'] == 'pool':
                    probes['driver_pool_sessions'] = 1
        finally:
            s.cleanup()
        seen = set()
        v = [x for x in v if not (x['sig'] in seen or seen.add(x['sig']))]
        return {'status': status, 'violations': v, 'digest': sim.log_digest(),
                'sim_ms': (sim.now - 1_600_000_000.0) * 1000.0, 'feature': sim.rand.digest(),
                'faults': {'P10_driver_session': 1, 'D8_pool_schedule': 1 if plan['mode'] == 'pool' else 0},
                'probes': probes, 'obligations': {'no-exception': len(s.results)},
                'unbiased': 0, 'ast_depth': None, 'max_depth': plan['max_depth'],
                'sample': {'driver_plan': {k: plan[k] for k in (
                    'language', 'mode', 'workers', 'iterations', 'batch', 't', 'max_depth',
                    'word_pool')}, 'programs': len(s.results), 'schedule': s.sched_log[:30]},
                'plan': dict(plan) if v else None}

    def session_tail(self, run, sim, plan, probes):
        """P9: the rest of a driver session in the same process.  hephaestus.gen_program is
        called many times per worker process, each time resetting the identifier pool and
        generating/mutating/translating a fresh program; state that survives from one program
        to the next (identifier pool, class-level caches) must not make a later program fail.
        The pool size is a per-run knob (200-450 words instead of 10000) so that a session of
        3-7 small programs stands for a session of hundreds.  An exhausted pool is legitimate
        only if this one program drew the whole pool by itself."""
        import random as _r
        from src import utils
        from src.generators.generator import Generator
        from src.transformations.type_erasure import TypeErasure
        from src.transformations.type_overwriting import TypeOverwriting
        from sim.core import apply_config, h64, OPC
        c = plan['config']
        rr = _r.Random(h64(plan['run_seed'], 'session'))
        if rr.random() >= 0.3:
            return []
        nprog, pool = rr.randint(3, 7), rr.randint(200, 450)
        R = utils.random
        lang = c['language']
        R.INITIAL_WORDS = set(rr.sample(sorted(R.INITIAL_WORDS), min(pool, len(R.INITIAL_WORDS))))
        size0 = len(R.INITIAL_WORDS)
        cfg = dict(c, max_depth=min(c['max_depth'], rr.randint(1, 3)))
        wopc = OPC['word']
        v = []
        for k in range(nprog):
            start = len(sim.rand.tape)
            stage = 'generate'
            try:
                R.reset_word_pool()
                apply_config(cfg)
                sim.event('session program %d' % (k + 2))
                p = Generator(language=lang, options={}).generate()
                tr = pipeline.translators()[lang]('src.pkg', {'cast_numbers': bool(
                    c.get('cast_numbers'))})
                stage = 'translate'
                utils.translate_program(tr, p)
                if k % 2 == 0:
                    stage = 'erasure'
                    te = TypeErasure(p, lang, None, {'timeout': 600})
                    te.transform()
                    p = te.result()
                    stage = 'overwriting'
                    to = TypeOverwriting(p, lang, None, {'timeout': 600})
                    to.transform()
                    stage = 'translate'
                    utils.translate_program(tr, to.result())
                probes['session_programs'] = probes.get('session_programs', 0) + 1
                used = sum(1 for e in sim.rand.tape[start:] if e[0] == wopc)
                if 2 * used >= size0:
                    probes['session_pool_half_used'] = 1
            except (Exception, RecursionError) as e:   # noqa
                used = sum(1 for e in sim.rand.tape[start:] if e[0] == wopc)
                if isinstance(e, IndexError) and used >= size0:
                    break                       # this program alone exhausted the pool
                et, frames = pipeline.exc_signature(e)
                v.append({'rule': 'no-exception-in-session',
                          'sig': 'exc|session-%s|%s|%s' % (stage, et, '<'.join(reversed(frames))),
                          'detail': '%s in stage %s of program #%d of a session in one process '
                                    '(lang=%s depth=%d; identifier pool of %d words, this '
                                    'program had drawn %d, pool after reset_word_pool() had %d): '
                                    '%s' % (et, stage, k + 2, lang, cfg['max_depth'], size0, used,
                                            used + len(R.WORDS), pipeline.exc_brief(e))})
                break
        return v

    def judge(self, run, obs, sim, plan):
        v = []
        c = plan['config']
        probes = {}
        if run.status == 'ok':
            v.extend(self.session_tail(run, sim, plan, probes))
        if c['max_depth'] >= 7:
            probes['depth>=7'] = 1
        if c['rounds'] >= 2:
            probes['rounds>=2'] = 1
        if sim.fault_fired['P4'] or sim.fault_fired['timer_deadline']:
            probes['timer_fired'] = 1
        for t in run.transformers:
            if t.is_transformed:
                probes[('erasure' if t.get_name() == 'TypeErasure' else 'overwriting')
                       + '_transformed'] = 1
        if run.status == 'error':
            stage, exc = run.error
            et, frames = pipeline.exc_signature(exc)
            st = stage.split(':')[0].rstrip('0123456789')
            v.append({'rule': 'no-exception',
                      'sig': 'exc|%s|%s|%s' % (st, et, '<'.join(reversed(frames))),
                      'detail': '%s in stage %s (lang=%s depth=%d): %s' % (
                          et, stage, c['language'], c['max_depth'], pipeline.exc_brief(exc))})
        elif run.status == 'hang':
            stage, exc = run.error
            v.append({'rule': 'terminates', 'sig': 'hang|%s' % stage.split(':')[0],
                      'detail': str(exc)})
        depth = None
        if run.program is not None and run.status in ('ok', 'error'):
            depth = ast_depth(run.program)
            bound = 6 * c['max_depth'] + 30
            if depth > bound:
                v.append({'rule': 'nesting-bound', 'sig': 'nesting|over-bound',
                          'detail': 'AST depth %d > %d at max_depth=%d' % (
                              depth, bound, c['max_depth'])})
        extra = {
            'probes': probes,
            'obligations': {'no-exception': 1, 'nesting-bound': 1 if depth is not None else 0},
            'unbiased': 0 if c.get('buggify') else 1,
            'ast_depth': depth,
            'max_depth': c['max_depth'],
            'sample': {'config': c, 'faults': plan.get('faults'), 'ndraws': len(sim.rand.tape),
                       'visitor_steps': sim.steps, 'work_units': sim.work_units,
                       'status': run.status, 'ast_depth': depth,
                       'stages': [s for s, _ in run.stages]},
        }
        return v, extra

    def collect(self, agg, res):
        d = agg.setdefault('c18', {'unbiased': 0, 'unbiased_budget': 0, 'depth_ratio_max': 0.0,
                                   'depth_hist': {}})
        if res.get('unbiased'):
            d['unbiased'] += 1
            if res.get('status') == 'budget':
                d['unbiased_budget'] += 1
        if res.get('ast_depth') is not None:
            k = str(res['max_depth'])
            d['depth_hist'][k] = max(d['depth_hist'].get(k, 0), res['ast_depth'])

    def finish(self, agg):
        d = agg.get('c18') or {}
        n, b = d.get('unbiased', 0), d.get('unbiased_budget', 0)
        if n >= 60 and b > 0.25 * n:
            return [{'rule': 'bounded-work', 'sig': 'budget-rate|unbiased',
                     'detail': '%d of %d unbiased runs exhausted the deterministic work '
                               'budget' % (b, n)}]
        return []

    def extra_evidence(self, agg):
        d = agg.get('c18') or {}
        return {'unbiased_runs': d.get('unbiased', 0),
                'unbiased_budget_exhausted': d.get('unbiased_budget', 0),
                'max_ast_depth_by_max_depth': d.get('depth_hist', {})}


CHECK = C18()
