"""C18 -- the pipeline never fails internally and always terminates."""
import sys

from sim import pipeline
from sim.pcheck import PipelineCheck


def ast_depth(program):
    """max nesting depth of the AST (children() edges), iterative"""
    best = 0
    stack = [(d, 1) for d in program.children()]
    while stack:
        node, dep = stack.pop()
        if dep > best:
            best = dep
        try:
            ch = node.children()
        except Exception:   # noqa
            ch = ()
        for c in ch:
            if c is not None and hasattr(c, 'children'):
                stack.append((c, dep + 1))
    return best


class C18(PipelineCheck):
    ID = 'C18'
    RULE = ('one evaluation = one simulated pipeline run (generate, 0-3 erasure rounds, '
            'overwriting, translation after every stage) under a seeded choice tape with '
            'swarm configuration (language, 4 switches, max_depth 1-9, rounds, timeout), '
            'buggify bias, early timer fires and clock jumps; distinct non-trivial = distinct '
            'choice-tape digest of a run whose generation stage finished')
    ASSUMPTIONS = [
        'work is measured in deterministic work units (tape entries + visitor steps + '
        'objects deep-copied), never in wall time',
        'nesting bound calibrated as AST depth <= 6*max_depth + 30',
        'budget-exhaustion judged as a rate over unbiased runs (<= 25 %)',
    ]
    PROBES = ('depth>=7', 'rounds>=2', 'timer_fired', 'erasure_transformed',
              'overwriting_transformed', 'session_programs', 'session_pool_half_used')
    MAX_DEPTH = (1, 9)
    tiers = {'quick': {'runs': 320, 'wall_s': 60, 'run_timeout_s': 300},
             'thorough': {'runs': 6000, 'wall_s': 1100, 'run_timeout_s': 900}}

    def before_run(self, run, sim, plan):
        sys.setrecursionlimit(2 * 1000 + 200)

    def session_tail(self, run, sim, plan, probes):
        """P9: the rest of a driver session in the same process.  hephaestus.gen_program is
        called many times per worker process, each time resetting the identifier pool and
        generating/mutating/translating a fresh program; state that survives from one program
        to the next (identifier pool, class-level caches) must not make a later program fail.
        The pool size is a per-run knob (200-450 words instead of 10000) so that a session of
        3-7 small programs stands for a session of hundreds.  An exhausted pool is legitimate
        only if this one program drew the whole pool by itself."""
        import random as _r
        from src import utils
        from src.generators.generator import Generator
        from src.transformations.type_erasure import TypeErasure
        from src.transformations.type_overwriting import TypeOverwriting
        from sim.core import apply_config, h64, OPC
        c = plan['config']
        rr = _r.Random(h64(plan['run_seed'], 'session'))
        if rr.random() >= 0.3:
            return []
        nprog, pool = rr.randint(3, 7), rr.randint(200, 450)
        R = utils.random
        lang = c['language']
        R.INITIAL_WORDS = set(rr.sample(sorted(R.INITIAL_WORDS), min(pool, len(R.INITIAL_WORDS))))
        size0 = len(R.INITIAL_WORDS)
        cfg = dict(c, max_depth=min(c['max_depth'], rr.randint(1, 3)))
        wopc = OPC['word']
        v = []
        for k in range(nprog):
            start = len(sim.rand.tape)
            stage = 'generate'
            try:
                R.reset_word_pool()
                apply_config(cfg)
                sim.event('session program %d' % (k + 2))
                p = Generator(language=lang, options={}).generate()
                tr = pipeline.translators()[lang]('src.pkg', {'cast_numbers': bool(
                    c.get('cast_numbers'))})
                stage = 'translate'
                utils.translate_program(tr, p)
                if k % 2 == 0:
                    stage = 'erasure'
                    te = TypeErasure(p, lang, None, {'timeout': 600})
                    te.transform()
                    p = te.result()
                    stage = 'overwriting'
                    to = TypeOverwriting(p, lang, None, {'timeout': 600})
                    to.transform()
                    stage = 'translate'
                    utils.translate_program(tr, to.result())
                probes['session_programs'] = probes.get('session_programs', 0) + 1
                used = sum(1 for e in sim.rand.tape[start:] if e[0] == wopc)
                if 2 * used >= size0:
                    probes['session_pool_half_used'] = 1
            except (Exception, RecursionError) as e:   # noqa
                used = sum(1 for e in sim.rand.tape[start:] if e[0] == wopc)
                if isinstance(e, IndexError) and used >= size0:
                    break                       # this program alone exhausted the pool
                et, frames = pipeline.exc_signature(e)
                v.append({'rule': 'no-exception-in-session',
                          'sig': 'exc|session-%s|%s|%s' % (stage, et, '<'.join(reversed(frames))),
                          'detail': '%s in stage %s of program #%d of a session in one process '
                                    '(lang=%s depth=%d; identifier pool of %d words, this '
                                    'program had drawn %d, pool after reset_word_pool() had %d): '
                                    '%s' % (et, stage, k + 2, lang, cfg['max_depth'], size0, used,
                                            used + len(R.WORDS), pipeline.exc_brief(e))})
                break
        return v

    def judge(self, run, obs, sim, plan):
        v = []
        c = plan['config']
        probes = {}
        if run.status == 'ok':
            v.extend(self.session_tail(run, sim, plan, probes))
        if c['max_depth'] >= 7:
            probes['depth>=7'] = 1
        if c['rounds'] >= 2:
            probes['rounds>=2'] = 1
        if sim.fault_fired['P4'] or sim.fault_fired['timer_deadline']:
            probes['timer_fired'] = 1
        for t in run.transformers:
            if t.is_transformed:
                probes[('erasure' if t.get_name() == 'TypeErasure' else 'overwriting')
                       + '_transformed'] = 1
        if run.status == 'error':
            stage, exc = run.error
            et, frames = pipeline.exc_signature(exc)
            st = stage.split(':')[0].rstrip('0123456789')
            v.append({'rule': 'no-exception',
                      'sig': 'exc|%s|%s|%s' % (st, et, '<'.join(reversed(frames))),
                      'detail': '%s in stage %s (lang=%s depth=%d): %s' % (
                          et, stage, c['language'], c['max_depth'], pipeline.exc_brief(exc))})
        elif run.status == 'hang':
            stage, exc = run.error
            v.append({'rule': 'terminates', 'sig': 'hang|%s' % stage.split(':')[0],
                      'detail': str(exc)})
        depth = None
        if run.program is not None and run.status in ('ok', 'error'):
            depth = ast_depth(run.program)
            bound = 6 * c['max_depth'] + 30
            if depth > bound:
                v.append({'rule': 'nesting-bound', 'sig': 'nesting|over-bound',
                          'detail': 'AST depth %d > %d at max_depth=%d' % (
                              depth, bound, c['max_depth'])})
        extra = {
            'probes': probes,
            'obligations': {'no-exception': 1, 'nesting-bound': 1 if depth is not None else 0},
            'unbiased': 0 if c.get('buggify') else 1,
            'ast_depth': depth,
            'max_depth': c['max_depth'],
            'sample': {'config': c, 'faults': plan.get('faults'), 'ndraws': len(sim.rand.tape),
                       'visitor_steps': sim.steps, 'work_units': sim.work_units,
                       'status': run.status, 'ast_depth': depth,
                       'stages': [s for s, _ in run.stages]},
        }
        return v, extra

    def collect(self, agg, res):
        d = agg.setdefault('c18', {'unbiased': 0, 'unbiased_budget': 0, 'depth_ratio_max': 0.0,
                                   'depth_hist': {}})
        if res.get('unbiased'):
            d['unbiased'] += 1
            if res.get('status') == 'budget':
                d['unbiased_budget'] += 1
        if res.get('ast_depth') is not None:
            k = str(res['max_depth'])
            d['depth_hist'][k] = max(d['depth_hist'].get(k, 0), res['ast_depth'])

    def finish(self, agg):
        d = agg.get('c18') or {}
        n, b = d.get('unbiased', 0), d.get('unbiased_budget', 0)
        if n >= 60 and b > 0.25 * n:
            return [{'rule': 'bounded-work', 'sig': 'budget-rate|unbiased',
                     'detail': '%d of %d unbiased runs exhausted the deterministic work '
                               'budget' % (b, n)}]
        return []

    def extra_evidence(self, agg):
        d = agg.get('c18') or {}
        return {'unbiased_runs': d.get('unbiased', 0),
                'unbiased_budget_exhausted': d.get('unbiased_budget', 0),
                'max_ast_depth_by_max_depth': d.get('depth_hist', {})}


CHECK = C18()
