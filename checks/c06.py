"""C06 -- the subtyping judgement is sound, and exact on concrete class types."""
import random as _pyrandom

from sim import monitors, pipeline, refrel, walk
from sim.core import h64
from sim.pcheck import PipelineCheck
from sim.snap import tsnap, tstr, shape


def class_decls(program):
    from src.ir import ast
    return [d for d in program.context._context.get(('global',), {}).get('decls', {}).values()
            if isinstance(d, ast.ClassDeclaration)]


def pattern(S, T):
    """variance/projection pattern of the first differing argument (for signatures)"""
    if S is None or T is None:
        return '-'
    if S[0] == 'P' and T[0] == 'P' and S[1] == T[1]:
        for a, b in zip(S[2], T[2]):
            if a != b:
                return 'same-ctor[%s vs %s]' % (shape(a, 1), shape(b, 1))
        return 'same-ctor[equal]'
    return '%s vs %s' % (shape(S, 1), shape(T, 1))


class _Obs(pipeline.Observer):
    def __init__(self, check):
        self.check = check

    def before_transform(self, run, name, program, index):
        if name == 'TypeOverwriting':
            # the overwriting mutation replaces a type argument in place on purpose (the
            # ill-typed program of C04); everything the probes need is collected before
            self.check.collect_before_overwriting(run, program)

    def after_transform(self, run, name, program, transformer, index):
        if name == 'TypeOverwriting':
            self.check.after_overwriting(run, program, transformer)


class MonitorCheck(PipelineCheck):
    MON = ()
    ROUNDS = (0, 1, 1, 2)
    MAX_DEPTH = (1, 6)

    def observer(self, sim, plan):
        return _Obs(self)

    def collect_before_overwriting(self, run, program):
        pass

    def after_overwriting(self, run, program, transformer):
        pass

    def before_run(self, run, sim, plan):
        monitors.install()
        self.rec = monitors.Recorder(self.MON, run_seed=plan['run_seed'] & 0xffffffff)
        monitors.Recorder.current = self.rec

    def table(self, run, implicit_top=True):
        return refrel.Table(run.program.bt_factory, class_decls(run.program),
                            implicit_top=implicit_top)


class C06(MonitorCheck):
    ID = 'C06'
    MON = ('C06',)
    RULE = ('one evaluation = one ordered pair (S, T) put to the real is_subtype: (a) every '
            'distinct top-level query issued while a simulated pipeline run generates, erases and '
            'overwrites a program (recorded by a monitor, judged for soundness against the final '
            'class table), (b) after the run, all ordered pairs over <= 40 types rebuilt from the '
            'finished program\'s class table and type occurrences (soundness for all; exactness '
            'on pairs free of type variables, primitives, star projections and the top type); '
            'the oracle is an independent declarative relation on structural snapshots; distinct '
            'non-trivial = distinct (S, T) snapshot pairs with S != T')
    ASSUMPTIONS = ['built-ins are identified by class (int and Integer are one type), as the IR does',
                   'in-run queries are judged for soundness only (stale type objects of classes '
                   'under construction make negative answers legitimate)',
                   'exhaustive enumeration over synthetic class tables is outside this technique '
                   'and not claimed']
    PROBES = ('projection_pairs', 'generic_nominal_step', 'tvar_pairs', 'exact_pairs',
              'positive_answers', 'stale_object_pairs')
    tiers = {'quick': {'runs': 260, 'wall_s': 70, 'run_timeout_s': 90},
             'thorough': {'runs': 4000, 'wall_s': 1100, 'run_timeout_s': 900}}

    def before_run(self, run, sim, plan):
        super().before_run(run, sim, plan)
        self.pool = None

    def collect_before_overwriting(self, run, program):
        from src.ir import types as tp
        pool = {}
        for d in class_decls(program):
            t = d.get_type()
            if not isinstance(t, tp.TypeConstructor):
                pool.setdefault(tsnap(t), t)
        n = 0
        for node, attr, root, part, ppath in walk.iter_type_occurrences(program):
            n += 1
            if n > 30000:
                break
            if isinstance(part, (tp.ParameterizedType, tp.SimpleClassifier, tp.Builtin)) and \
                    not isinstance(part, tp.TypeConstructor):
                s = tsnap(part)
                # types mentioning type variables belong to one scope each: pairing them
                # across scopes asks a question nobody can ask
                if refrel.has_tvars(s):
                    continue
                if s not in pool and len(pool) < 400:
                    pool[s] = part
        self.pool = pool
        self.run_probe(run, pool)

    def run_probe(self, run, pool):
        v = self.probe_v = {}
        obl = self.probe_obl = {'probe-soundness': 0, 'probe-exactness': 0, 'undetermined': 0}
        probes = self.probe_probes = {}
        pairs = self.probe_pairs = set()
        tb = self.table(run)
        lang = run.language

        def add(rule, direction, S, T, detail):
            sig = '%s|%s|%s' % (rule, direction, pattern(S, T))
            if sig not in v:
                v[sig] = {'rule': rule, 'sig': sig,
                          'detail': '%s: is_subtype(%s, %s) %s [lang=%s]' % (
                              rule, tstr(S), tstr(T), detail, lang)}
        
        r_ = _pyrandom.Random(h64(run.sim.run_seed, 'c06'))
        keys = sorted(pool, key=repr)
        if len(keys) > 40:
            keys = r_.sample(keys, 40)
        tb_exact = self.table(run, implicit_top=False)
        for S in keys:
            for T in keys:
                if S == T:
                    continue
                try:
                    impl = bool(pool[S].is_subtype(pool[T]))
                except Exception:   # noqa  (TypeError on abstract types etc.)
                    continue
                pairs.add(hash((S, T)) & 0xffffffffff)
                obl['probe-soundness'] += 1
                ref = refrel.sub3(S, T, tb)
                if ref is None:
                    obl['undetermined'] += 1
                    continue
                if impl and not ref:
                    add('unsound', 'impl-yes-ref-no', S, T, 'answered True on the final class table')
                if S[0] == 'P' and T[0] != 'P':
                    probes['generic_nominal_step'] = probes.get('generic_nominal_step', 0) + 1
                if exact_fragment(S, tb) and exact_fragment(T, tb):
                    ref2 = refrel.sub3(S, T, tb_exact)
                    if ref2 is None:
                        continue
                    obl['probe-exactness'] += 1
                    probes['exact_pairs'] = probes.get('exact_pairs', 0) + 1
                    if impl != ref2 and inconsistent_views(pool[S], pool[T], tb_exact):
                        # the two live objects carry different copies of one class (a type
                        # object created while its class was still being built): not "types
                        # built from a completed class table"
                        probes['stale_object_pairs'] = probes.get('stale_object_pairs', 0) + 1
                        continue
                    if impl != ref2:
                        add('inexact', 'impl-%s-ref-%s' % ('yes' if impl else 'no',
                                                           'yes' if ref2 else 'no'), S, T,
                            'answered %s on the final class table, the declarative relation '
                            'says %s' % (impl, ref2))
        self.probe_keys = keys

    def after_overwriting(self, run, program, transformer):
        # from here on the program holds a deliberately ill-formed type; stop recording
        self.rec.enable.discard('C06')

    def judge(self, run, obs, sim, plan):
        monitors.Recorder.current = None
        rec = self.rec
        v = {}
        probes = {}
        obl = {'inrun-soundness': 0, 'probe-soundness': 0, 'probe-exactness': 0, 'undetermined': 0}
        pairs = set()
        if run.program is None:
            return [], {'probes': probes, 'obligations': obl, 'pairs': []}
        tb = self.table(run)
        lang = plan['config']['language']

        def add(rule, direction, S, T, detail):
            sig = '%s|%s|%s' % (rule, direction, pattern(S, T))
            if sig not in v:
                v[sig] = {'rule': rule, 'sig': sig,
                          'detail': '%s: is_subtype(%s, %s) %s [lang=%s]' % (
                              rule, tstr(S), tstr(T), detail, lang)}
        # (a) in-run queries: soundness
        for (S, T), res in rec.sub.items():
            if S != T:
                pairs.add(hash((S, T)) & 0xffffffffff)
            if not res:
                continue
            probes['positive_answers'] = probes.get('positive_answers', 0) + 1
            if S[0] in ('W', 'TC') or T[0] in ('W', 'TC'):
                continue
            obl['inrun-soundness'] += 1
            r = refrel.sub3(S, T, tb)
            if r is None:
                obl['undetermined'] += 1
            elif r is False:
                add('unsound', 'impl-yes-ref-no', S, T, 'answered True during the run')
            if refrel.has_wild(S) or refrel.has_wild(T):
                probes['projection_pairs'] = probes.get('projection_pairs', 0) + 1
            if refrel.has_tvars(S) or refrel.has_tvars(T):
                probes['tvar_pairs'] = probes.get('tvar_pairs', 0) + 1
        # (b) probe over types of the finished (not yet overwritten) program: evaluated at
        # that moment (collect_before_overwriting), because the overwriting mutation
        # changes live type objects in place
        if self.pool is None:
            self.collect_before_overwriting(run, run.program)
        for sig, x in self.probe_v.items():
            v.setdefault(sig, x)
        for k, n_ in self.probe_obl.items():
            obl[k] = obl.get(k, 0) + n_
        for k, n_ in self.probe_probes.items():
            probes[k] = probes.get(k, 0) + n_
        pairs |= self.probe_pairs
        keys = self.probe_keys
        extra = {'probes': probes, 'obligations': obl, 'pairs': list(pairs)[:3000],
                 'sample': {'config': plan['config'], 'inrun_queries': rec.sub_calls,
                            'distinct_inrun_pairs': len(rec.sub), 'probe_types': len(keys),
                            'example_pairs': [(tstr(S), tstr(T), res)
                                              for (S, T), res in list(rec.sub.items())[:6]]}}
        return list(v.values()), extra

    def collect(self, agg, res):
        d = agg.setdefault('c06', {'pairs': set(), 'n': 0})
        d['pairs'].update(res.get('pairs') or ())
        o = res.get('obligations') or {}
        d['n'] += o.get('inrun-soundness', 0) + o.get('probe-soundness', 0)

    def extra_evidence(self, agg):
        d = agg.get('c06') or {'pairs': set(), 'n': 0}
        return {'evaluations': d['n'], 'distinct_nontrivial': len(d['pairs']),
                'simulated_runs': agg['runs']}


def inconsistent_views(a, b, tb=None):
    """do the object graphs of a and b hold two structurally different type objects for
    one class name, or a type object whose recorded supertypes differ from the class's
    declaration in the final class table (an object created while the class was still
    being built)?"""
    from src.ir import types as tp
    from sim.snap import deep
    views = {}
    seen = set()
    stack = [a, b]
    n = 0
    while stack and n < 400:
        t = stack.pop()
        if t is None or id(t) in seen:
            continue
        seen.add(id(t))
        n += 1
        if tb is not None and isinstance(t, (tp.ParameterizedType, tp.SimpleClassifier)) \
                and not isinstance(t, tp.Builtin):
            ci = tb.classes.get(t.name)
            if ci is not None and not ci.builtin:
                sup = t.t_constructor.supertypes if isinstance(t, tp.ParameterizedType) \
                    else t.supertypes
                if [tsnap(x) for x in sup] != list(ci.supers):
                    return True
        if isinstance(t, tp.ParameterizedType):
            views.setdefault(t.name, set()).add(
                tuple(deep(x) for x in t.t_constructor.supertypes))
            stack.extend(t.type_args)
            stack.extend(t.supertypes)
            stack.extend(t.t_constructor.supertypes)
        elif isinstance(t, tp.WildCardType):
            stack.append(t.bound)
        elif isinstance(t, tp.Builtin):
            continue
        elif isinstance(t, tp.SimpleClassifier):
            views.setdefault(t.name, set()).add(tuple(deep(x) for x in t.supertypes))
            stack.extend(t.supertypes)
    return any(len(v) > 1 for v in views.values())


def exact_fragment(s, tb, depth=0):
    """types built only from non-generic classes, built-ins and instantiations of generic
    classes with such types or bounded projections of them; no type variables, primitives,
    star projections or the top type"""
    k = s[0]
    if k == 'B':
        return not s[2] and not tb.is_top(s) and s[1] not in ('VoidType', 'UnitType')
    if k == 'C':
        return True
    if k == 'P':
        return all(exact_fragment(a, tb, depth + 1) for a in s[2])
    if k == 'W':
        return depth > 0 and s[2] is not None and exact_fragment(s[2], tb, depth + 1)
    return False


CHECK = C06()
