"""C10 -- type unification returns a unifier or nothing."""
from sim import monitors, refrel
from sim.snap import tsnap, tstr, shape
from checks.c06 import MonitorCheck, class_decls


def apply(t, m):
    """substitution keyed by whole variable snapshots"""
    if t is None:
        return None
    k = t[0]
    if k == 'V':
        if t in m:
            return m[t]
        if t[3] is not None:
            return ('V', t[1], t[2], apply(t[3], m))
        return t
    if k == 'P':
        return ('P', t[1], tuple(apply(a, m) for a in t[2]))
    if k == 'W':
        return t if t[2] is None else ('W', t[1], apply(t[2], m))
    return t


def upper_approx(t, tb, fuel=8):
    """a type WITHOUT open variables that every instance of t (open variables ranging over
    their own bounds) is a subtype of; None = no constraint.  Open variables are widened to
    `? extends <their upper approximation>` at argument positions that are declared invariant
    or covariant, to `*` at contravariant positions and under `in` projections."""
    if t is None or fuel <= 0:
        return None
    k = t[0]
    if k == 'V':
        return upper_approx(t[3], tb, fuel - 1)
    if not refrel.has_tvars(t):
        return t
    if k == 'P':
        ci = tb.classes.get(t[1])
        if ci is None or len(ci.params) != len(t[2]):
            return None
        args = []
        for prm, a in zip(ci.params, t[2]):
            if not refrel.has_tvars(a):
                args.append(a)
                continue
            dv = prm[1]
            if dv == 2 or (a[0] == 'W' and (a[2] is None or a[1] == 2)):
                args.append(('W', 1, None))
                continue
            inner = a[2] if a[0] == 'W' else a
            u = upper_approx(inner, tb, fuel - 1)
            args.append(('W', 1, u) if u is not None else ('W', 1, None))
        return ('P', t[1], tuple(args))
    return None


def match(p, t, tb, why):
    """does the instantiated pattern p describe the target t, up to open variables whose
    target component satisfies the variable's bound?  Returns True / False / None."""
    if refrel.strip(p) == refrel.strip(t):
        return True
    if p is None or t is None:
        return False
    if p[0] == 'V':
        b = p[3]
        while b is not None and b[0] == 'V':
            b = b[3]                      # a bound that is itself an open variable
        if b is None:
            return True
        if refrel.has_tvars(b):
            # bound still mentions open variables: only its variable-free upper
            # approximation can be judged (a necessary condition)
            b = upper_approx(b, tb)
            if b is None:
                return None
            x = refrel.upper(t) if t[0] == 'W' else t
            if x is None:
                return None
            ok = refrel.sub3(x, b, tb)
            if ok is False:
                why.append('open variable %s: target component %s outside the upper '
                           'approximation %s of its bound' % (p[1], tstr(t), tstr(b)))
                return False
            return None
        x = t
        if t[0] == 'W':
            if t[2] is None:
                return None
            x = t[2]
        ok = refrel.sub3(x, b, tb)
        if ok is False:
            why.append('open variable %s: target component %s outside its bound %s' % (
                p[1], tstr(t), tstr(b)))
        return ok
    if p[0] == 'P' and t[0] == 'P' and p[1] == t[1] and len(p[2]) == len(t[2]):
        res = True
        for a, b in zip(p[2], t[2]):
            r = match(a, b, tb, why)
            if r is False:
                return False
            if r is None:
                res = None
        return res
    if p[0] == 'W' and t[0] == 'W':
        if p[2] is None or t[2] is None:
            return p[2] is None and t[2] is None
        if p[1] != t[1]:
            why.append('projection %s matched against opposite projection %s' % (
                tstr(p), tstr(t)))
            return False
        return match(p[2], t[2], tb, why)
    why.append('%s does not describe %s' % (tstr(p), tstr(t)))
    return False


def supertypes_of(t, tb, fuel=12):
    """t and its nominal supertypes (snapshots) through the class table"""
    out = [t]
    seen = set()
    stack = [t]
    while stack and fuel > 0:
        fuel -= 1
        s = stack.pop()
        if s[0] == 'P':
            ci = tb.classes.get(s[1])
            if ci is None or len(ci.params) != len(s[2]):
                continue
            m = {p[0]: a for p, a in zip(ci.params, s[2])}
            sups = [refrel.subst(u, m) for u in ci.supers]
        elif s[0] == 'C':
            ci = tb.classes.get(s[1])
            sups = list(ci.supers) if ci else []
        elif s[0] == 'B':
            sups = tb.bsupers.get(s[1], [])
        else:
            sups = []
        for u in sups:
            if u not in seen:
                seen.add(u)
                out.append(u)
                stack.append(u)
    return out


class C10(MonitorCheck):
    ID = 'C10'
    MON = ('C10',)
    RULE = ('one evaluation = one top-level unify_types(target, pattern) call with a non-empty '
            'result, issued by the generator\'s matching routines and by the type-dependency '
            'analysis of the mutations (supertype-matching mode) during a simulated pipeline '
            'run, plus a post-run probe that unifies every ground instantiation G<a..> occurring '
            'in the finished program with G<its parameters>; the substitute-back law is checked '
            'with an independent substitution and the reference relation; distinct non-trivial = '
            'distinct (target, pattern, result) snapshot triples')
    ASSUMPTIONS = ['the law over the infinite term space beyond the pairs the simulated system '
                   'issues (and the probe derives) is not decided here',
                   'components for which the reference relation is undetermined are counted, not '
                   'judged']
    PROBES = ('nonempty_unifiers', 'empty_results', 'supertype_mode', 'projection_pattern',
              'nested_related_constructor', 'bound_mentions_bounded_variable',
              'sibling_bounded_variable',
              'bounded_variable', 'postrun_unifications')
    tiers = {'quick': {'runs': 260, 'wall_s': 70, 'run_timeout_s': 200},
             'thorough': {'runs': 4000, 'wall_s': 1100, 'run_timeout_s': 900}}

    def judge(self, run, obs, sim, plan):
        rec = self.rec
        v = {}
        probes = {}
        obl = {'substitute-back': 0, 'assigned-within-bound': 0, 'undetermined': 0,
               'probe-expected-unifier': 0}
        feats = set()
        if run.program is None:
            monitors.Recorder.current = None
            return [], {'probes': probes, 'obligations': obl}
        lang = plan['config']['language']
        tb = refrel.Table(run.program.bt_factory, class_decls(run.program))

        def add(rule, what, detail):
            sig = '%s|%s' % (rule, what)
            if sig not in v:
                v[sig] = {'rule': rule, 'sig': sig, 'detail': '%s [lang=%s]' % (detail, lang)}
        # post-run probe: G<a..> against G<params>: the unifier is known
        npost = 0
        if run.status == 'ok':
            from sim import walk
            from src.ir import types as tp, type_utils as tu
            decls = {d.name: d for d in class_decls(run.program) if d.type_parameters}
            seen = set()
            for node, attr, root, part, ppath in walk.iter_type_occurrences(run.program):
                if not isinstance(part, tp.ParameterizedType) or part.name not in decls:
                    continue
                s = tsnap(part)
                if s in seen or refrel.has_tvars(s) or refrel.has_wild(s):
                    continue
                seen.add(s)
                d = decls[part.name]
                if len(d.type_parameters) != len(part.type_args):
                    continue
                pat = d.get_type().new(list(d.type_parameters))
                n0 = len(rec.unif)
                try:
                    res = tu.unify_types(part, pat, run.program.bt_factory)
                except Exception:   # noqa
                    continue
                npost += 1
                obl['probe-expected-unifier'] += 1
                # every variable the result assigns must get the corresponding argument
                want = {tsnap(p): tsnap(a) for p, a in zip(d.type_parameters, part.type_args)}
                got = {tsnap(k): tsnap(x) for k, x in res.items()}
                bad = [k for k, x in got.items()
                       if k in want and refrel.strip(x) != refrel.strip(want[k])]
                if bad:
                    add('probe-wrong-unifier', 'same-constructor',
                        'unify_types(%s, %s) = {%s}, but %s is instantiated with %s there' % (
                            tstr(s), tstr(tsnap(pat)),
                            ', '.join('%s: %s' % (tstr(k), tstr(x)) for k, x in got.items()),
                            bad[0][1], tstr(want[bad[0]])))
                # derived patterns (the law decides): one position made ground -- correctly and
                # wrongly --, and one variable repeated at two positions
                n = len(d.type_parameters)
                if n >= 2 and npost < 60:
                    f = run.program.bt_factory
                    wrong = f.get_string_type()
                    if tsnap(part.type_args[0]) == tsnap(wrong):
                        wrong = f.get_boolean_type()
                    tps = list(d.type_parameters)
                    for args in ([part.type_args[0]] + tps[1:], [wrong] + tps[1:],
                                 [tps[1]] + tps[1:]):
                        try:
                            tu.unify_types(part, d.get_type().new(list(args)),
                                           run.program.bt_factory)
                            npost += 1
                        except Exception:   # noqa
                            pass
                if npost >= 60:
                    break
            # nested argument whose constructor differs from the pattern's but is related to it
            # by inheritance (B<Y> : C<Y>), in both matching modes: A<B<g>> against A<C<T>>
            f = run.program.bt_factory
            ground = [f.get_string_type(), f.get_integer_type(), f.get_boolean_type()]
            pairs = []
            for d in decls.values():
                for sc in d.superclasses:
                    t = sc.class_type
                    if isinstance(t, tp.ParameterizedType) and t.name in decls:
                        pairs.append((d, decls[t.name]))
            nn = 0
            for (b, c_) in pairs[:6]:
                for a in list(decls.values())[:5]:
                    try:
                        bt = b.get_type().new([ground[i % 3] for i in range(len(b.type_parameters))])
                        ct = c_.get_type().new(list(c_.type_parameters))
                        rest = [ground[(i + 1) % 3] for i in range(len(a.type_parameters) - 1)]
                        target = a.get_type().new([bt] + rest)
                        pattern = a.get_type().new([ct] + rest)
                        for same in (False, True):
                            tu.unify_types(target, pattern, f, same_type=same)
                            nn += 1
                    except Exception:   # noqa
                        pass
            # a pattern that is a bounded type variable whose bound mentions ANOTHER bounded
            # variable: T <: G<U, g..>, U <: Number, against targets G<String, g..> (cannot
            # satisfy the bound for any U) and G<Integer, g..> (can); both matching modes.
            # The recorded calls are judged below by the upper-approximation rule.
            nb = 0
            num, good, badt = f.get_number_type(), f.get_integer_type(), f.get_string_type()
            for d in list(decls.values())[:8]:
                tps = d.type_parameters
                if tps[0].bound is not None:
                    continue
                try:
                    rest = [ground[(i + 1) % 3] for i in range(len(tps) - 1)]
                    u = tp.TypeParameter('U_probe', bound=num)
                    t_ = tp.TypeParameter('T_probe', bound=d.get_type().new([u] + rest))
                    for x in (badt, good):
                        target = d.get_type().new([x] + rest)
                        for same in (False, True):
                            tu.unify_types(target, t_, f, same_type=same)
                            nb += 1
                except Exception:   # noqa
                    pass
            npost += nb
            if nb:
                probes['bound_mentions_bounded_variable'] = nb
            # pattern variables bounded by a SIBLING variable of the same pattern, in both
            # orders: G<S <: B, B, g..> and G<B, S <: B, g..> against G<x, y, g..> with x <: y
            # and with x, y unrelated (the generator declares such parameters itself; the
            # targets are well-formed because G's own first two parameters are unbounded)
            ns = 0
            for d in list(decls.values())[:8]:
                tps = d.type_parameters
                if len(tps) < 2 or tps[0].bound is not None or tps[1].bound is not None:
                    continue
                try:
                    rest = [ground[(i + 1) % 3] for i in range(len(tps) - 2)]
                    bv = tp.TypeParameter('B_probe')
                    sv = tp.TypeParameter('S_probe', bound=bv)
                    for pargs in ([sv, bv], [bv, sv]):
                        pattern = d.get_type().new(pargs + rest)
                        for (x, y) in ((badt, good), (good, num), (num, good)):
                            targs = [x, y] if pargs[0] is sv else [y, x]
                            target = d.get_type().new(targs + rest)
                            for same in (False, True):
                                tu.unify_types(target, pattern, f, same_type=same)
                                ns += 1
                except Exception:   # noqa
                    pass
            npost += ns
            if ns:
                probes['sibling_bounded_variable'] = ns
            npost += nn
            if nn:
                probes['nested_related_constructor'] = nn
        monitors.Recorder.current = None
        probes['postrun_unifications'] = npost
        probes['empty_results'] = getattr(rec, 'unif_empty', 0)
        for t1, t2, same, sigma, caller in rec.unif:
            probes['nonempty_unifiers'] = probes.get('nonempty_unifiers', 0) + 1
            if not same:
                probes['supertype_mode'] = probes.get('supertype_mode', 0) + 1
            if refrel.has_wild(t2):
                probes['projection_pattern'] = probes.get('projection_pattern', 0) + 1
            feats.add(hash((t1, t2, same, repr(sigma))) & 0xffffffffff)
            m = dict(sigma)
            inst = apply(t2, m)
            obl['substitute-back'] += 1
            cands = [t1] if same else supertypes_of(t1, tb)
            best = False
            why = []
            for c in cands:
                w = []
                r = match(inst, c, tb, w)
                if r is True:
                    best = True
                    break
                if r is None:
                    best = None
                else:
                    why = why or w
            where = 'unify_types(%s, %s%s) = {%s} (called from %s)' % (
                tstr(t1), tstr(t2), '' if same else ', same_type=False',
                ', '.join('%s: %s' % (tstr(k), tstr(x)) for k, x in sigma), caller)
            if best is None:
                obl['undetermined'] += 1
            elif best is False:
                reason = why[0] if why else 'no supertype of the target matches'
                kind = 'opposite-projection' if 'opposite projection' in reason else (
                    'open-variable-bound' if 'open variable' in reason else 'shape')
                add('not-a-unifier', '%s|%s' % ('same' if same else 'super', kind),
                    '%s: applying the result to the pattern gives %s; %s' % (
                        where, tstr(inst), reason))
            for k, x in sigma:
                if k[0] == 'V' and k[3] is not None:
                    probes['bounded_variable'] = probes.get('bounded_variable', 0) + 1
                    b = apply(k[3], m)
                    while b is not None and b[0] == 'V':
                        b = b[3]
                    if b is None:
                        continue
                    if refrel.has_tvars(b):
                        # the bound mentions open variables: judge the necessary condition
                        # "within the variable-free upper approximation of the bound"
                        ub = upper_approx(b, tb)
                        xx = refrel.upper(x) if x[0] == 'W' else x
                        if ub is not None and xx is not None and not refrel.has_tvars(xx):
                            obl['assigned-within-bound-approx'] = obl.get(
                                'assigned-within-bound-approx', 0) + 1
                            if refrel.sub3(xx, ub, tb) is False:
                                add('assigned-outside-bound', '%s|approx|%s-vs-%s' % (
                                    'same' if same else 'super', shape(xx, 1), shape(ub, 1)),
                                    '%s: %s := %s cannot satisfy the bound %s for any value of '
                                    'its open variables (upper approximation %s)' % (
                                        where, k[1], tstr(x), tstr(b), tstr(ub)))
                        continue
                    xx = x
                    if x[0] == 'W':
                        if x[2] is None or x[1] != 1:
                            continue
                        xx = x[2]
                    if refrel.has_wild(b):
                        continue
                    obl['assigned-within-bound'] += 1
                    ok = refrel.sub3(xx, b, tb)
                    if ok is None:
                        obl['undetermined'] += 1
                    elif ok is False:
                        add('assigned-outside-bound', '%s|%s-vs-%s' % (
                            'same' if same else 'super', shape(xx, 1), shape(b, 1)),
                            '%s: %s := %s violates the bound %s' % (
                                where, k[1], tstr(x), tstr(b)))
        extra = {'probes': probes, 'obligations': obl, 'feats': list(feats)[:3000],
                 'ncalls': len(rec.unif) + npost,
                 'sample': {'config': plan['config'], 'nonempty': len(rec.unif),
                            'examples': [(tstr(a), tstr(b), s_, [(tstr(k), tstr(x)) for k, x in sg])
                                         for a, b, s_, sg, _ in rec.unif[:4]]}}
        return list(v.values()), extra

    def collect(self, agg, res):
        d = agg.setdefault('c10', {'n': 0, 'feats': set()})
        d['n'] += res.get('ncalls', 0)
        d['feats'].update(res.get('feats') or ())

    def extra_evidence(self, agg):
        d = agg.get('c10') or {'n': 0, 'feats': set()}
        return {'evaluations': d['n'], 'distinct_nontrivial': len(d['feats']),
                'simulated_runs': agg['runs']}


CHECK = C10()
