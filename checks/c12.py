"""C12 -- translations are faithful to the program's declarations and annotations."""
import pickle
import random as _pyrandom
import re

from sim import pipeline, walk
from sim.core import SimAbort, h64
from sim.pcheck import PipelineCheck
from checks.c11 import StageCollector

SENT = 'Zqsentinelx'
MADE_BY_TRANSLATOR = re.compile(r'^(Main|Function\d+|Incorrect)$')
OPEN, CLOSE = '([{', ')]}'
NPICK = 36


def balance(text):
    """brackets, quotes and blocks balanced (string and char literals skipped)"""
    stack = []
    i, n = 0, len(text)
    while i < n:
        ch = text[i]
        if ch == '"':
            if text.startswith('"""', i):
                j = text.find('"""', i + 3)
                if j < 0:
                    return 'unterminated triple-quoted string'
                i = j + 3
                continue
            j = i + 1
            while j < n and text[j] != '"':
                if text[j] == '\\':
                    j += 1
                if text[j] == '\n':
                    return 'unterminated string literal'
                j += 1
            if j >= n:
                return 'unterminated string literal'
            i = j + 1
            continue
        if ch == "'":
            # char literal 'x' or '\\x'
            if i + 2 < n and text[i + 2] == "'":
                i += 3
                continue
            if i + 3 < n and text[i + 1] == '\\' and text[i + 3] == "'":
                i += 4
                continue
            return "stray quote at offset %d" % i
        if ch in OPEN:
            stack.append(ch)
        elif ch in CLOSE:
            if not stack or OPEN[CLOSE.index(ch)] != stack[-1]:
                return "unbalanced '%s' at offset %d" % (ch, i)
            stack.pop()
        i += 1
    if stack:
        return "unclosed '%s'" % stack[-1]
    return None


HEADER = re.compile(r'^\s*((?:(?:open|final|abstract|public|static|sealed|private)\s+)*)'
                    r'(class|interface|trait)\s+(\w+)(.*)$')


def scan_classes(text):
    out = {}
    for ln in text.split('\n'):
        m = HEADER.match(ln)
        if m:
            out.setdefault(m.group(3), []).append((m.group(1).split(), m.group(2), m.group(4)))
    return out


def words(text):
    return set(re.findall(r'[A-Za-z_][A-Za-z0-9_]*', text))


class C12(PipelineCheck):
    ID = 'C12'
    RULE = ('one evaluation = one (stage program, translator of the program\'s language) pair of '
            'a simulated pipeline run (generated, after each erasure round, overwritten; four '
            'languages, swarm switches, buggify): the emitted text is checked for bracket/quote '
            'balance, for a declaration inventory (every class of the IR exactly once with its '
            'kind keyword, abstractness/finality modifiers, superclass name, type-parameter names '
            'and bound names; every function, field, parameter and variable name; every literal; '
            'nothing but translator-made classes in addition) and by SENTINEL TAINT: in a pickled '
            'copy one annotation at a time (a var_type, a ret_type, one explicit type argument, '
            'one recorded-only type) is replaced by a fresh sentinel type and the sentinel must '
            'appear in the text iff the language prints that annotation; distinct non-trivial = '
            'distinct (text digest) with >= 1 taint replacement')
    ASSUMPTIONS = ['expectation table per language from the property\'s anchors: Kotlin/Scala '
                   'print var_type / ret_type / explicit type arguments iff present; Groovy prints '
                   'a variable type iff var_type is present; Java prints constructor type '
                   'arguments unless inferable; the documented deviations are known findings',
                   'names are compared as whole-word tokens; the translator-made names (Main, '
                   'FunctionN) are whitelisted']
    PROBES = ('generated', 'erased', 'overwritten', 'taint_var_type', 'taint_ret_type',
              'taint_type_arg', 'taint_recorded_only', 'bounded_tparam_header', 'superclass_header',
              'taint_param_type', 'taint_field_type', 'taint_tparam_bound', 'taint_super_type_arg',
              'taint_literal', 'taint_operator', 'taint_is_type', 'taint_bottom_cast',
              'taint_flag_final_var', 'taint_flag_vararg', 'taint_flag_is_not',
              'taint_projection_rendering')
    MAX_DEPTH = (1, 5)
    ROUNDS = (0, 1, 1, 2)
    TRANSLATE = False
    tiers = {'quick': {'runs': 450, 'wall_s': 80, 'run_timeout_s': 300},
             'thorough': {'runs': 2500, 'wall_s': 1100, 'run_timeout_s': 900}}

    def observer(self, sim, plan):
        return StageCollector()

    # ---------------------------------------------------------------------------------
    def judge(self, run, obs, sim, plan):
        from src import utils
        from src.ir import ast, types as tp
        c = plan['config']
        lang = c['language']
        T = pipeline.translators()
        opts = {'cast_numbers': bool(c.get('cast_numbers'))}
        v = {}
        probes = {}
        obl = {'balance': 0, 'class-inventory': 0, 'name-inventory': 0, 'literals': 0,
               'taint': 0}
        feats = []
        r = _pyrandom.Random(h64(plan['run_seed'], 'c12'))

        def add(rule, what, detail):
            sig = '%s|%s|%s' % (rule, lang, what)
            if sig not in v:
                v[sig] = {'rule': rule, 'sig': sig, 'detail': detail}

        def translate(program):
            with sim.rand.paused():
                return utils.translate_program(T[lang]('src.pkg', dict(opts)), program)
        if run.status != 'ok':
            return [], {'probes': probes, 'obligations': obl, 'nstage': 0}
        for name, blob in obs.stages:
            st = name.rstrip('0123456789')
            probes[st] = probes.get(st, 0) + 1
            program = pickle.loads(blob)
            try:
                text = translate(program)
            except SimAbort:
                raise
            except Exception:   # noqa  (C18's business)
                continue
            feats.append('%08x' % pipeline.hash_text(text))
            # (a) balance
            obl['balance'] += 1
            b = balance(text)
            if b:
                add('unbalanced', b.split(' at ')[0], 'stage %s: %s' % (name, b))
            # (b) inventory
            self.inventory(program, text, lang, add, obl, probes, st)
            # (c) sentinel taint
            sites = self.taint_sites(program)
            r.shuffle(sites)
            # stratified: one site of every (annotation kind, node type, scope) class first,
            # so that rare classes (an omitted return type of a NESTED function ...) are met
            groups = {}
            for st_ in sites:
                sc_ = 'global' if st_[0].count('/') <= 1 else (
                    'member' if re.match(r'^global/[^/]+/functions\[\d+\]$', st_[0]) else 'local')
                groups.setdefault((st_[3], st_[1], sc_), []).append(st_)
            picked = []
            while len(picked) < NPICK and any(groups.values()):
                for key_ in sorted(groups):
                    if groups[key_] and len(picked) < NPICK:
                        picked.append(groups[key_].pop())
            for (path, attr, idx, kind, expect) in picked:
                p2 = pickle.loads(blob)
                node = self.find(p2, path)
                if node is None:
                    continue
                sent = tp.SimpleClassifier(SENT)
                rendering = None
                if attr in ('var_type', 'ret_type', 'param_type', 'field_type') and \
                        not getattr(node, 'vararg', False) and r.random() < 0.4:
                    # composite sentinel: the RENDERING of use-site projections in a declared
                    # type, Zq<out Zqin, in Zqcon, *> in the notation of the language
                    za, zb, zc = (tp.TypeParameter(n) for n in ('Za', 'Zb', 'Zc'))
                    sent = tp.TypeConstructor(SENT, [za, zb, zc]).new([
                        tp.WildCardType(tp.SimpleClassifier('Zqin'), tp.Covariant),
                        tp.WildCardType(tp.SimpleClassifier('Zqcon'), tp.Contravariant),
                        tp.WildCardType()])
                    rendering = {
                        'kotlin': SENT + '<out Zqin, in Zqcon, *>',
                        'java': SENT + '<? extends Zqin, ? super Zqcon, ?>',
                        'groovy': SENT + '<? extends Zqin, ? super Zqcon, ?>',
                        'scala': SENT + '[? <: Zqin, ? >: Zqcon, ?]'}[lang]
                try:
                    pred = self.put(node, attr, idx, sent, lang)
                    t2 = translate(p2)
                except SimAbort:
                    raise
                except Exception:   # noqa
                    continue
                obl['taint'] += 1
                probes['taint_' + kind] = probes.get('taint_' + kind, 0) + 1
                seen = (SENT in t2) if pred is None else bool(pred(text, t2))
                want = expect(lang, node)
                if want is None:
                    continue
                if rendering is not None and want and seen:
                    probes['taint_projection_rendering'] = probes.get(
                        'taint_projection_rendering', 0) + 1
                    if rendering not in t2:
                        m_ = re.search(re.escape(SENT) + r'[^\n;=){]{0,60}', t2)
                        add('projection-rendering', '%s|%s' % (kind, type(node).__name__),
                            'stage %s: the %s %s<out Zqin, in Zqcon, *> of %s %s is printed as %r, '
                            'expected %r' % (name, kind, SENT, type(node).__name__,
                                             getattr(node, 'name', ''),
                                             m_.group(0) if m_ else None, rendering))
                if seen != want:
                    scope = 'global' if path.count('/') <= 1 else (
                        'member' if re.match(r'^global/[^/]+/ClassDeclaration:functions\[\d+\]$'
                                             .replace('ClassDeclaration:', ''), path) else 'local')
                    add('annotation-%s' % ('printed-but-absent' if seen else 'dropped'),
                        '%s|%s|%s' % (kind, type(node).__name__, scope),
                        'stage %s: %s of %s %s [%s] is %s in the %s text although the program %s it' % (
                            name, kind, type(node).__name__, getattr(node, 'name', ''), path,
                            'printed' if seen else 'not printed', lang,
                            'does not carry' if seen else 'carries'))
        extra = {'probes': probes, 'obligations': obl, 'feats': feats, 'nstage': len(feats),
                 'sample': {'config': c, 'stages': [n for n, _ in obs.stages],
                            'taints': obl['taint']}}
        return list(v.values()), extra

    # ---------------------------------------------------------------------------------
    def inventory(self, program, text, lang, add, obl, probes, st):
        from src.ir import ast
        classes = scan_classes(text)
        W = words(text)
        decls = list(program.context._context.get(('global',), {}).get('decls', {}).values())
        ir_classes = {d.name: d for d in decls if isinstance(d, ast.ClassDeclaration)}
        obl['class-inventory'] += 1
        for name in classes:
            if name not in ir_classes and not MADE_BY_TRANSLATOR.match(name):
                add('extra-class', 'declared-in-text-only', 'text declares class %s, which the '
                    'program does not have' % name)
        for name, d in ir_classes.items():
            hs = classes.get(name)
            if not hs:
                add('missing-class', 'class', 'class %s of the program is not declared in the '
                    'text' % name)
                continue
            if len(hs) > 1:
                add('duplicate-class', 'class', 'class %s is declared %d times' % (name, len(hs)))
            mods, kw, rest = hs[0]
            want_kw = 'class'
            if d.class_type == ast.ClassDeclaration.INTERFACE:
                want_kw = 'trait' if lang == 'scala' else 'interface'
            if kw != want_kw:
                add('class-kind', '%s-as-%s' % (want_kw, kw), 'class %s: declared with %r, the '
                    'program says %r' % (name, kw, want_kw))
            is_abs = d.class_type == ast.ClassDeclaration.ABSTRACT
            if ('abstract' in mods) != is_abs:
                add('modifier', 'abstract', 'class %s: abstract in text=%s, in program=%s' % (
                    name, 'abstract' in mods, is_abs))
            if d.class_type == ast.ClassDeclaration.REGULAR:
                if lang in ('java', 'groovy'):
                    if ('final' in mods) != bool(d.is_final):
                        add('modifier', 'final', 'class %s: final in text=%s, in program=%s' % (
                            name, 'final' in mods, d.is_final))
                else:
                    if ('open' in mods) != (not d.is_final):
                        add('modifier', 'open', 'class %s: open in text=%s, final in program=%s' % (
                            name, 'open' in mods, d.is_final))
            for s in d.superclasses:
                probes['superclass_header'] = probes.get('superclass_header', 0) + 1
                sn = s.class_type.name
                if not re.search(r'\b%s\b' % re.escape(sn), rest):
                    add('inheritance-clause', 'superclass-missing', 'class %s: superclass %s '
                        'does not appear in its header %r' % (name, sn, rest[:80]))
            for p in d.type_parameters:
                if not re.search(r'\b%s\b' % re.escape(p.name), rest):
                    add('type-parameter', 'name-missing', 'class %s: type parameter %s not in '
                        'header' % (name, p.name))
                if p.bound is not None:
                    probes['bounded_tparam_header'] = probes.get('bounded_tparam_header', 0) + 1
                    bn = getattr(p.bound, 'name', None)
                    if bn and bn != '*' and not re.search(
                            r'\b%s\b' % re.escape(str(bn)), rest) and not getattr(
                                p.bound, 'is_primitive', lambda: False)():
                        names = self.builtin_names(p.bound, lang)
                        if not any(re.search(r'\b%s\b' % re.escape(x), rest) for x in names):
                            add('type-parameter', 'bound-missing', 'class %s: bound %s of type '
                                'parameter %s not in header %r' % (name, bn, p.name, rest[:80]))
        # type parameters of functions: declared in the function's own header
        lines = text.split('\n')
        for node, path, parents in walk.iter_nodes(program):
            if not isinstance(node, ast.FunctionDeclaration) or not node.type_parameters:
                continue
            nm = re.escape(node.name)
            if lang in ('kotlin', 'scala'):
                hdr = re.compile(r'\b(?:fun|def)\b(.*?\b%s\b[^(]*)\(' % nm)
            else:
                hdr = re.compile(r'^([^=.]*?\b%s)\s*\(' % nm)
            heads = [m_.group(1) for m_ in (hdr.search(ln) for ln in lines) if m_]
            if lang in ('java', 'groovy'):
                heads = [h for h in heads if not re.search(r'\b(return|new)\b', h)]
            if not heads:
                continue
            obl['function-type-parameters'] = obl.get('function-type-parameters', 0) + 1
            want = [p.name for p in node.type_parameters]
            if not any(all(re.search(r'\b%s\b' % re.escape(w_), h) for w_ in want)
                       for h in heads):
                add('type-parameter', 'function-header',
                    'function %s declares type parameters %s, its header in the text reads %r' % (
                        node.name, want, heads[0].strip()[:100]))
        # parameter ORDER: in the header line of a function the parameter names follow each
        # other as in the program; likewise the fields of a class in its primary constructor
        def check_order(owner, names, what):
            if len(names) < 2 or len(set(names)) != len(names):
                return
            nm = re.escape(owner)
            for ln in lines:
                m0 = re.search(r'\b%s\b' % nm, ln)
                if not m0:
                    continue
                tail = ln[m0.end():]
                pos = []
                for q in names:
                    # declaration syntax only: `name: T` (Kotlin, Scala), `T name` (Java,
                    # Groovy) -- a call that passes or names the parameters is not a header
                    mq = re.search(r'\b%s\b\s*:' % re.escape(q), tail) if lang in (
                        'kotlin', 'scala') else re.search(
                            r'[\w>\]?]\s+%s\b\s*[,)=]' % re.escape(q), tail)
                    pos.append(mq.start() if mq else -1)
                if min(pos) < 0:
                    continue
                obl[what + '-order'] = obl.get(what + '-order', 0) + 1
                if pos != sorted(pos):
                    add(what + '-order', 'header',
                        '%s declares %ss %s, its header reads %r' % (
                            owner, what, names, ln.strip()[:160]))
                break
        for node, path, parents in walk.iter_nodes(program):
            if isinstance(node, ast.FunctionDeclaration):
                check_order(node.name, [q.name for q in node.params], 'parameter')
        for cname, d in ir_classes.items():
            if d.class_type != ast.ClassDeclaration.INTERFACE:
                check_order(cname, [fd.name for fd in d.fields], 'field')
        # override / final modifiers of methods, where the language expresses them
        for cname, d in ir_classes.items():
            for fn in d.functions:
                nm = re.escape(fn.name)
                if lang in ('kotlin', 'scala'):
                    hdr = re.compile(r'^(.*)\b(?:fun|def)\b.*?\b%s\b' % nm)
                else:
                    hdr = re.compile(r'^([^=.]*?)\b%s\s*\(' % nm)
                heads = [m_.group(1) for m_ in (hdr.search(ln) for ln in lines) if m_]
                heads = [h for h in heads if not re.search(r'\b(return|new)\b', h)]
                if not heads:
                    continue
                obl['method-modifiers'] = obl.get('method-modifiers', 0) + 1
                if lang in ('kotlin', 'scala'):
                    has = [bool(re.search(r'\boverride\b', h)) for h in heads]
                    if bool(fn.override) not in has:
                        add('modifier', 'override', 'method %s.%s: override in program=%s, '
                            'header(s) %r' % (cname, fn.name, fn.override, heads[:2]))
                if lang in ('java', 'scala', 'groovy') and fn.body is not None and \
                        d.class_type != ast.ClassDeclaration.INTERFACE:
                    has = [bool(re.search(r'\bfinal\b', h)) for h in heads]
                    if bool(fn.is_final) not in has:
                        add('modifier', 'final-method', 'method %s.%s: final in program=%s, '
                            'header(s) %r' % (cname, fn.name, fn.is_final, heads[:2]))
        # modifiers of class fields: Kotlin `[open ][override ]val|var`, Scala
        # `[final ][override ]val|var`, Java/Groovy `public [final ]T name`.  A name may be
        # declared in several classes (overriding): the multisets must agree.
        want_f = {}
        for cname, d in ir_classes.items():
            for fd in d.fields:
                if lang == 'kotlin':
                    m_ = ('open ' if fd.can_override else '') + (
                        'override ' if fd.override else '') + ('val' if fd.is_final else 'var')
                elif lang == 'scala':
                    m_ = ('final ' if not fd.can_override else '') + (
                        'override ' if fd.override else '') + ('val' if fd.is_final else 'var')
                else:
                    m_ = 'final' if fd.is_final else ''
                want_f.setdefault(fd.name, []).append(m_)
        for fname, want in list(want_f.items())[:400]:
            nm = re.escape(fname)
            if lang in ('kotlin', 'scala'):
                rx = re.compile(r'((?:\b(?:open|final|override)\s+)*)\b(val|var)\s+`?%s`?\s*:' % nm)
                got = [' '.join((m_.group(1) + m_.group(2)).split()) for m_ in rx.finditer(text)]
                dbg = ''
            else:
                rx = re.compile(r'^[ \t]*public[ \t]+(final[ \t]+)?[^()=;\n]*?\b%s\b[ \t]*;?[ \t]*$'
                                % nm, re.M)
                ms = list(rx.finditer(text))
                got = ['final' if m_.group(1) else '' for m_ in ms]
                dbg = [m_.group(0).strip()[:60] for m_ in ms]
            if len(got) != len(want):
                continue          # the scanner did not isolate the declarations: not judged
            obl['field-modifiers'] = obl.get('field-modifiers', 0) + 1
            if sorted(got) != sorted(want):
                add('modifier', 'field', 'field %s: modifiers in the program %r, in the text %r %s' % (
                    fname, sorted(want), sorted(got), dbg if lang in ('java', 'groovy') else ''))
        # names of functions, fields, parameters, variables
        obl['name-inventory'] += 1
        nlit = 0
        for node, path, parents in walk.iter_nodes(program):
            if isinstance(node, (ast.FunctionDeclaration, ast.FieldDeclaration,
                                 ast.ParameterDeclaration, ast.VariableDeclaration)):
                if node.name not in W:
                    # a lambda's synthetic parameter of an unused kind is still printed
                    add('missing-name', type(node).__name__, '%s %s is not in the text' % (
                        type(node).__name__, node.name))
            elif isinstance(node, (ast.StringConstant, ast.IntegerConstant, ast.RealConstant,
                                   ast.CharConstant)) and nlit < 400:
                nlit += 1
                obl['literals'] += 1
                lit = str(node.literal)
                if isinstance(node, ast.IntegerConstant):
                    lit = lit.lstrip('-')
                if isinstance(node, ast.RealConstant):
                    lit = lit.lstrip('-').rstrip('0') or lit
                if lit and lit not in text:
                    add('missing-literal', type(node).__name__, 'literal %r is not in the text' %
                        str(node.literal))

    @staticmethod
    def builtin_names(t, lang):
        n = str(getattr(t, 'name', ''))
        alias = {'Int': ['Int', 'Integer', 'int'], 'Integer': ['Integer', 'Int', 'int'],
                 'Any': ['Any', 'Object'], 'Object': ['Object', 'Any'],
                 'Char': ['Char', 'Character'], 'Character': ['Character', 'Char'],
                 'Array': ['Array', '[]', 'IntArray', 'Array[']}
        return alias.get(n, [n])

    # ---------------------------------------------------------------------------------
    def taint_sites(self, program):
        """(node path, attribute, index, kind, expectation) for annotation sites"""
        from src.ir import ast, types as tp
        sites = []

        def e_var(lang, node):
            return True                   # a carried variable type is printed everywhere

        def e_ret(lang, node):
            return True

        def e_rec_var(lang, node):
            # recorded-only type of a variable whose declared type is omitted
            return False

        def e_rec_ret(lang, node):
            return False

        def e_new_arg(lang, node):
            return True

        def e_call_arg(lang, node):
            return True

        def e_true(lang, node):
            return True

        def e_not_java_groovy(lang, node):
            return None if lang in ('java', 'groovy') else True
        for node, path, parents in walk.iter_nodes(program):
            if isinstance(node, ast.VariableDeclaration):
                if node.var_type is not None:
                    sites.append((path, 'var_type', None, 'var_type', e_var))
                else:
                    sites.append((path, 'inferred_type', None, 'recorded_only', e_rec_var))
            elif isinstance(node, ast.FunctionDeclaration):
                if node.ret_type is not None:
                    if node.name == 'main' and not parents:
                        continue
                    sites.append((path, 'ret_type', None, 'ret_type', e_ret))
                elif node.body is not None:
                    sites.append((path, 'inferred_type', None, 'recorded_only', e_rec_ret))
            elif isinstance(node, ast.New):
                t = node.class_type
                if isinstance(t, tp.ParameterizedType) and not t.__dict__.get(
                        '_can_infer_type_args') and not t.name.startswith('Function') \
                        and t.name != 'Array':
                    for i in range(len(t.type_args)):
                        sites.append((path, 'class_type', i, 'type_arg', e_new_arg))
            elif isinstance(node, ast.FunctionCall):
                if node.type_args and not node.__dict__.get('_can_infer_type_args'):
                    for i in range(len(node.type_args)):
                        sites.append((path, 'type_args', i, 'type_arg', e_call_arg))
            # ---- element taint: declared types that are always carried, bounds, inheritance
            # clauses, literals and operators (each must be reflected in the text)
            if isinstance(node, ast.ParameterDeclaration):
                in_lambda = any(isinstance(x, ast.Lambda) for x in parents[-1:])
                if not in_lambda:
                    sites.append((path, 'param_type', None, 'param_type', e_true))
                    # (a nested function is rendered as a lambda / closure by the Java and
                    # Groovy translators, which cannot express a variable-arity parameter)
                    nested = any(isinstance(x, ast.Block) for x in parents)
                    sites.append((path, 'vararg', None, 'flag_vararg',
                                  e_not_java_groovy if nested else e_true))
            elif isinstance(node, ast.FieldDeclaration):
                sites.append((path, 'field_type', None, 'field_type', e_true))
            elif isinstance(node, ast.ClassDeclaration):
                for i, p_ in enumerate(node.type_parameters):
                    if p_.bound is not None:
                        sites.append((path, 'tparam_bound', i, 'tparam_bound', e_true))
                for i, s_ in enumerate(node.superclasses):
                    if isinstance(s_.class_type, tp.ParameterizedType):
                        for j in range(len(s_.class_type.type_args)):
                            sites.append((path, 'super_arg', (i, j), 'super_type_arg', e_true))
            if isinstance(node, ast.FunctionDeclaration):
                for i, p_ in enumerate(node.type_parameters):
                    if p_.bound is not None:
                        sites.append((path, 'tparam_bound', i, 'tparam_bound', e_true))
            elif isinstance(node, ast.VariableDeclaration):
                sites.append((path, 'is_final', None, 'flag_final_var', e_true))
            elif isinstance(node, ast.Is):
                sites.append((path, 'rexpr', None, 'is_type', e_true))
                sites.append((path, 'is_not', None, 'flag_is_not', e_true))
            elif isinstance(node, ast.BottomConstant):
                if node.t is not None:
                    sites.append((path, 't', None, 'bottom_cast', e_true))
            elif isinstance(node, (ast.IntegerConstant, ast.RealConstant, ast.StringConstant,
                                   ast.CharConstant, ast.BooleanConstant)):
                sites.append((path, 'literal', None, 'literal', e_true))
            elif isinstance(node, ast.BinaryOp) and type(node).VALID_OPERATORS:
                sites.append((path, 'operator', None, 'operator', e_true))
        return sites

    @staticmethod
    def find(program, path):
        for node, p, parents in walk.iter_nodes(program):
            if p == path:
                return node
        return None

    @staticmethod
    def put(node, attr, idx, sent, lang=None):
        """apply one replacement; returns None (the sentinel type must be looked for) or a
        predicate (text before, text after) -> bool saying whether the element is reflected"""
        from src.ir import ast
        if attr == 'class_type':
            node.class_type.type_args[idx] = sent
        elif attr == 'type_args':
            node.type_args = list(node.type_args)
            node.type_args[idx] = sent
        elif attr == 'var_type':
            node.var_type = sent
            node.inferred_type = sent
        elif attr == 'ret_type':
            node.ret_type = sent
            node.inferred_type = sent
        elif attr == 'tparam_bound':
            node.type_parameters[idx].bound = sent
        elif attr == 'super_arg':
            i, j = idx
            node.superclasses[i].class_type.type_args[j] = sent
        elif attr in ('vararg', 'is_final'):
            setattr(node, attr, not getattr(node, attr))
            return lambda before, after: before != after
        elif attr == 'is_not':
            node.operator = ast.Operator('is', is_not=not node.operator.is_not)
            return lambda before, after: before != after
        elif attr == 'literal':
            if isinstance(node, ast.IntegerConstant):
                lit = 918273
                node.literal = lit
            elif isinstance(node, ast.RealConstant):
                lit = '9182.53125'
                node.literal = lit
            elif isinstance(node, ast.BooleanConstant):
                lit = 'false' if str(node.literal) == 'true' else 'true'
                node.literal = lit
            elif isinstance(node, ast.CharConstant):
                lit = '~'
                node.literal = lit
            else:
                lit = 'zqsentinelx'
                node.literal = lit
            lit = str(lit)
            return lambda before, after: after.count(lit) > before.count(lit)
        elif attr == 'operator':
            valid = type(node).VALID_OPERATORS.get(lang) or type(node).ALL_OPERATORS
            others = [o for o in valid if o != node.operator]
            if not others:
                return lambda before, after: True
            new = others[0]
            # prefer a replacement whose text is not a substring of the old operator's text
            for o in others:
                if str(o) not in str(node.operator):
                    new = o
                    break
            node.operator = new
            tok = str(new)
            return lambda before, after: before != after and after.count(tok) > before.count(tok)
        else:
            setattr(node, attr, sent)
        return None

    def collect(self, agg, res):
        d = agg.setdefault('c12', {'n': 0, 'feats': set()})
        d['n'] += res.get('nstage', 0)
        d['feats'].update(res.get('feats') or ())

    def extra_evidence(self, agg):
        d = agg.get('c12') or {'n': 0, 'feats': set()}
        return {'evaluations': d['n'], 'distinct_nontrivial': len(d['feats']),
                'simulated_runs': agg['runs']}


CHECK = C12()
