"""C05 -- generated programs are closed and respect scoping and mutability rules."""
import os

from sim import refcheck
from sim.pcheck import PipelineCheck

JAVA_KW = set("abstract assert boolean break byte case catch char class const continue default do "
              "double else enum extends final finally float for goto if implements import "
              "instanceof int interface long native new package private protected public return "
              "short static strictfp super switch synchronized this throw throws transient try "
              "void volatile while true false null".split())
KOTLIN_KW = set("as break class continue do else false for fun if in interface is null object "
                "package return super this throw true try typealias typeof val var when "
                "while".split())


def reserved_words(lang):
    if lang == 'java':
        return JAVA_KW
    if lang == 'kotlin':
        return KOTLIN_KW
    from src import utils
    return set(utils.get_reserved_words(utils.RandomUtils.resource_path, lang))


class RefCheck(PipelineCheck):
    PROP = None
    TRANSLATE = False
    ROUNDS = (0,)
    MAX_DEPTH = (1, 7)

    def make_config(self, run_seed):
        c = super().make_config(run_seed)
        c['only_cp'] = True
        c['rounds'] = 0
        return c

    def judge(self, run, obs, sim, plan):
        c = plan['config']
        lang = c['language']
        if run.program is None or run.status != 'ok':
            return [], {'probes': {}, 'obligations': {}}
        ck = refcheck.Checker(run.program)
        ck.run(reserved_words(lang))
        v = {}
        for x in ck.viol:
            if x['prop'] != self.PROP:
                continue
            sig = '%s|%s' % (x['rule'], x['extra'])
            if sig not in v:
                v[sig] = {'rule': x['rule'], 'sig': sig,
                          'detail': '%s at %s [lang=%s]' % (x['detail'], x['where'], lang)}
        obl = {k[6:]: n for k, n in ck.stats.items() if k.startswith('oblig_')}
        und = {k[13:]: n for k, n in ck.stats.items() if k.startswith('undetermined_')}
        probes = {k: n for k, n in ck.stats.items()
                  if k in ('sam_coercion', 'numeric_constant_leniency', 'call_without_type_args',
                           'cond_recorded_not_upper_bound', 'sub_unknown')}
        self.more_probes(run.program, probes)
        extra = {'probes': probes, 'obligations': obl, 'undetermined': sum(und.values()),
                 'nobl': sum(obl.values()),
                 'sample': {'config': c, 'obligations': obl, 'undetermined': und,
                            'declarations': len(ck.decls)}}
        return list(v.values()), extra

    def more_probes(self, program, probes):
        from sim import walk
        from src.ir import ast
        for node, path, parents in walk.iter_nodes(program):
            k = type(node).__name__
            if k in ('Lambda', 'FunctionReference', 'Is', 'Assignment'):
                probes['has_' + k] = 1
            if isinstance(node, ast.FunctionDeclaration) and parents and isinstance(
                    parents[-1], ast.Block):
                probes['has_nested_function'] = 1
            if isinstance(node, ast.FunctionCall):
                if node.is_ref_call:
                    probes['has_ref_call'] = 1
                if any(a.name for a in node.args):
                    probes['has_named_argument'] = 1
            if isinstance(node, ast.ParameterDeclaration) and node.vararg:
                probes['has_vararg'] = 1

    def collect(self, agg, res):
        d = agg.setdefault('rc', {'n': 0, 'und': 0})
        d['n'] += res.get('nobl', 0)
        d['und'] += res.get('undetermined', 0)

    def extra_evidence(self, agg):
        d = agg.get('rc') or {'n': 0, 'und': 0}
        return {'obligations_total': d['n'], 'obligations_undetermined': d['und']}


class C05(RefCheck):
    ID = 'C05'
    PROP = 'C05'
    RULE = ('one evaluation = one program returned by Generator.generate() in a simulated run '
            '(choice tape, buggify, swarm of languages / switches / depth 1-7); an independent '
            'lexical resolver walks it: every Variable, FunctionCall (plain, receiver, through a '
            'function-typed variable), FunctionReference, FieldAccess, New, Assignment and '
            'super-class instantiation must resolve to a declaration visible from that point '
            '(declared earlier in the same or an enclosing function/lambda, member of the '
            'receiver\'s class or its superclass chain, top level), with an admissible number of '
            'arguments (defaults incl. inherited ones, varargs, named arguments); assigned '
            'variables/fields non-final, instantiated classes regular, type variables in scope, '
            'identifiers unique per scope and not reserved, Java lambdas/nested functions '
            'capturing only final locals; distinct non-trivial = distinct tape digests of '
            'finished programs')
    ASSUMPTIONS = ['receiver types are computed by the reference type checker from declarations; '
                   'a receiver whose type cannot be determined (bottom constant, unknown class) '
                   'is counted as undetermined, not judged',
                   'reserved words: the repository\'s keyword files for Groovy and Scala, the '
                   'language specifications\' hard keywords for Java and Kotlin']
    PROBES = ('has_Lambda', 'has_FunctionReference', 'has_nested_function', 'has_ref_call',
              'has_named_argument', 'has_vararg', 'has_Is', 'has_Assignment', 'sam_coercion')
    tiers = {'quick': {'runs': 700, 'wall_s': 70, 'run_timeout_s': 200},
             'thorough': {'runs': 12000, 'wall_s': 1100, 'run_timeout_s': 900}}


CHECK = C05()
