"""C08 -- instantiation helpers pick type arguments within bounds and allowed variance."""
from sim import monitors, refrel
from sim.snap import tsnap, tstr, shape
from checks.c06 import MonitorCheck, class_decls

COV, CONTRA = 1, 2


def mentioned_in_other_bounds(params, i):
    name = params[i][0]

    def mentions(t):
        if t is None:
            return False
        if t[0] == 'V':
            return t[1] == name or mentions(t[3])
        if t[0] == 'P':
            return any(mentions(a) for a in t[2])
        if t[0] == 'W':
            return mentions(t[2])
        return False
    return any(mentions(p[2]) for j, p in enumerate(params) if j != i)


def _mentions(t, name, depth=0):
    """does the live type (attribute reads only) mention a type variable called `name`?"""
    from src.ir import types as tp
    if t is None or depth > 12:
        return False
    if isinstance(t, tp.TypeParameter):
        return t.name == name or _mentions(t.bound, name, depth + 1)
    if isinstance(t, tp.WildCardType):
        return _mentions(t.bound, name, depth + 1)
    if isinstance(t, tp.ParameterizedType):
        return any(_mentions(a, name, depth + 1) for a in t.type_args)
    return False


def ctor_param_names(t, tb, depth=0):
    """names of the declared type parameters of every generic class mentioned in snapshot t"""
    out = set()
    if t is None or depth > 8:
        return out
    if t[0] == 'P':
        ci = tb.classes.get(t[1])
        if ci is not None:
            out |= {prm[0] for prm in ci.params}
        for a in t[2]:
            out |= ctor_param_names(a, tb, depth + 1)
    elif t[0] == 'W':
        out |= ctor_param_names(t[2], tb, depth + 1)
    elif t[0] == 'V':
        out |= ctor_param_names(t[3], tb, depth + 1)
    return out


class C08(MonitorCheck):
    ID = 'C08'
    MON = ('C08',)
    RULE = ('one evaluation = one top-level call of instantiate_type_constructor or '
            'instantiate_parameterized_function made during a simulated pipeline run (generator, '
            'Program.get_types of the mutations and translators), plus a post-run probe that '
            're-instantiates every generic class and generic function of the finished program '
            'through the real helpers with the argument combinations the generator uses '
            '(default, variance_choices {} / all-false); recorded (parameters, pre-assignments, '
            'variance choices, switches, result) are judged against an independent bounds / '
            'variance judgement; distinct non-trivial = distinct (declaration snapshot, result '
            'snapshot) pairs')
    ASSUMPTIONS = ['a bound check whose substituted bound contains a projection or whose '
                   'relation is undetermined is counted, not judged',
                   'PECS for function types and disable_variance flags are part of the caller\'s '
                   'variance choices']
    PROBES = ('constructor_calls', 'function_calls', 'bounded_param', 'dependent_bound',
              'pre_assignment', 'projection_result', 'postrun_instantiations',
              'method_of_generic_class', 'derived_bound_over_class_variable')
    tiers = {'quick': {'runs': 260, 'wall_s': 70, 'run_timeout_s': 200},
             'thorough': {'runs': 4000, 'wall_s': 1100, 'run_timeout_s': 900}}

    def judge(self, run, obs, sim, plan):
        rec = self.rec
        v = {}
        probes = {}
        obl = {'one-arg-per-param': 0, 'within-bound': 0, 'no-primitive-no-constructor': 0,
               'pre-assignment-kept': 0, 'projection-allowed': 0, 'undetermined': 0}
        feats = set()
        if run.program is None:
            monitors.Recorder.current = None
            return [], {'probes': probes, 'obligations': obl}
        lang = plan['config']['language']
        npost = 0
        if run.status == 'ok':
            from src.ir import type_utils as tu, ast
            from sim import walk
            try:
                types = run.program.get_types()
            except Exception:   # noqa
                types = None
            if types is not None:
                for d in class_decls(run.program):
                    if not d.type_parameters:
                        continue
                    for vc in (None, {}, 'allfalse'):
                        try:
                            vcm = ({p: (False, False) for p in d.type_parameters}
                                   if vc == 'allfalse' else vc)
                            tu.instantiate_type_constructor(d.get_type(), types,
                                                            variance_choices=vcm)
                            npost += 1
                        except Exception:   # noqa
                            pass
                # generic METHODS of generic classes, instantiated as _gen_matching_class /
                # _get_matching_class do: the class is instantiated first and its assignments
                # are handed over through type_var_map
                nm = 0
                for d in class_decls(run.program):
                    if not d.type_parameters or nm >= 10:
                        continue
                    for fn in d.functions:
                        if not fn.type_parameters:
                            continue
                        try:
                            _, params_map = tu.instantiate_type_constructor(
                                d.get_type(), types, only_regular=True)
                            tu.instantiate_parameterized_function(
                                fn.type_parameters, types, only_regular=True,
                                type_var_map=params_map)
                            npost += 1
                            nm += 1
                            probes['method_of_generic_class'] = probes.get(
                                'method_of_generic_class', 0) + 1
                        except Exception:   # noqa
                            pass
                # the same call shape with a derived method type parameter whose bound is a
                # PARAMETERIZED type over a type variable of the class, F : G<T, a..> inside
                # C<T, ..> (the generator declares such bounds itself, but rarely): the
                # assignments of the class instantiation arrive through type_var_map
                from src.ir import types as tp
                gen = [d for d in class_decls(run.program) if d.type_parameters]
                nd = 0
                for d in gen[:6]:
                    t0 = d.type_parameters[0]
                    for g in gen[:6]:
                        if g.type_parameters[0].bound is not None or nd >= 12:
                            continue
                        g0 = g.type_parameters[0]
                        if any(q.bound is not None and _mentions(q.bound, g0.name)
                               for q in g.type_parameters[1:]):
                            continue      # G<T, a..> would not be well-formed for every T
                        try:
                            gi, _ = tu.instantiate_type_constructor(g.get_type(), types,
                                                                    only_regular=True)
                            bound = g.get_type().new([t0] + list(gi.type_args[1:]))
                            fp = tp.TypeParameter('F_probe', bound=bound)
                            _, params_map = tu.instantiate_type_constructor(
                                d.get_type(), types, only_regular=True)
                            tu.instantiate_parameterized_function(
                                [fp], types, only_regular=True, type_var_map=params_map)
                            npost += 1
                            nd += 1
                            probes['derived_bound_over_class_variable'] = probes.get(
                                'derived_bound_over_class_variable', 0) + 1
                        except Exception:   # noqa
                            pass
                nf = 0
                for node, path, parents in walk.iter_nodes(run.program):
                    if isinstance(node, ast.FunctionDeclaration) and node.type_parameters:
                        try:
                            tu.instantiate_parameterized_function(node.type_parameters, types)
                            npost += 1
                        except Exception:   # noqa
                            pass
                        nf += 1
                        if nf >= 12:
                            break
        monitors.Recorder.current = None
        probes['postrun_instantiations'] = npost
        tb = refrel.Table(run.program.bt_factory, class_decls(run.program))

        def add(rule, what, detail):
            sig = '%s|%s' % (rule, what)
            if sig not in v:
                v[sig] = {'rule': rule, 'sig': sig, 'detail': '%s [lang=%s]' % (detail, lang)}

        for r in rec.inst:
            params, args = r['params'], r['args']
            kind = r['kind']
            probes[kind + '_calls'] = probes.get(kind + '_calls', 0) + 1
            feats.add(hash((kind, r['name'], repr(params), repr(args))) & 0xffffffffff)
            obl['one-arg-per-param'] += 1
            where = '%s %s<%s> := <%s> (called from %s)' % (
                kind, r['name'], ', '.join(tstr(('V',) + p) for p in params),
                ', '.join(tstr(a) for a in args), r['caller'])
            if len(args) != len(params) or any(a is None for a in args):
                add('one-arg-per-param', kind, where)
                continue
            m = {p[0]: a for p, a in zip(params, args)}
            pre_by_name = {k[1]: val for k, val in r['pre'].items() if k and k[0] == 'V'}
            for i, (p, a) in enumerate(zip(params, args)):
                core = a[2] if a[0] == 'W' else a
                # no primitive, no bare constructor
                obl['no-primitive-no-constructor'] += 1
                if core is not None and ((core[0] == 'B' and core[2]) or core[0] == 'TC'):
                    add('unusable-argument', '%s|%s' % (kind, 'primitive' if core[0] == 'B'
                                                        else 'constructor'),
                        '%s: argument %d is %s' % (where, i, tstr(a)))
                # bound
                if p[2] is not None:
                    probes['bounded_param'] = probes.get('bounded_param', 0) + 1
                    if refrel.has_tvars(p[2]):
                        probes['dependent_bound'] = probes.get('dependent_bound', 0) + 1
                    # the bound is read under the chosen arguments AND under the caller's
                    # assignments for variables of enclosing declarations (a method of C<T>
                    # instantiated for a receiver C<String> is given {T: String})
                    m2 = {k_: v_ for k_, v_ in pre_by_name.items() if k_ not in m}
                    m2.update(m)
                    b = refrel.subst(p[2], m2)
                    x = a
                    if a[0] == 'W':
                        if a[2] is None or a[1] != COV:
                            x = None
                        else:
                            x = a[2]
                    if x is not None and x[0] != 'N' and not refrel.has_wild(b) \
                            and b[0] != 'V':
                        obl['within-bound'] += 1
                        ok = refrel.sub3(x, b, tb)
                        if ok is None:
                            obl['undetermined'] += 1
                        elif ok is False:
                            outer = refrel.has_tvars(b)
                            # a class mentioned in the bound declares a parameter with the
                            # NAME of a variable the caller pre-assigned (type parameters are
                            # identified by name, variance and bound): the helper's own
                            # substitutions capture it
                            capture = bool(ctor_param_names(p[2], tb) & set(m2) - set(m))
                            add('outside-bound', '%s|%s' % (
                                kind, 'bound-mentions-outer-type-variable' if outer
                                else '%s-vs-%s%s' % (shape(x, 1), shape(b, 1),
                                                     '|name-capture' if capture else '')),
                                '%s: argument %d = %s is not within the bound %s' % (
                                    where, i, tstr(a), tstr(b)))
                # pre-assignment kept
                pre = pre_by_name.get(p[0])
                if pre is not None:
                    probes['pre_assignment'] = probes.get('pre_assignment', 0) + 1
                    obl['pre-assignment-kept'] += 1
                    okset = [pre, ('N',)]
                    if pre[0] == 'W' and pre[2] is not None:
                        okset.append(pre[2])
                    kept = any(refrel.strip(a) == refrel.strip(o) for o in okset) or (
                        a[0] == 'W' and a[2] is not None and any(
                            refrel.strip(a[2]) == refrel.strip(o) for o in okset))
                    if not kept:
                        add('pre-assignment-lost', kind,
                            '%s: caller asked %s := %s' % (where, p[0], tstr(pre)))
                # projections
                if a[0] == 'W' and a[2] is not None:
                    probes['projection_result'] = probes.get('projection_result', 0) + 1
                    if pre is not None and pre[0] == 'W':
                        continue          # the caller's own projection passed through
                    obl['projection-allowed'] += 1
                    vc = r['vc']
                    if r['kind'] == 'constructor' and r['pecs'] and r['name'].startswith('Function'):
                        vc = {q[0]: (False, True) for q in params[:-1]}
                        vc[params[-1][0]] = (True, False)
                    if r['dv'] or (r['dvf'] and r['name'].startswith('Function')):
                        vc = {q[0]: (False, False) for q in params}
                    reason = None
                    if vc is None:
                        reason = 'no variance choices given'
                    elif mentioned_in_other_bounds(params, i):
                        reason = 'parameter is mentioned in another parameter\'s bound'
                    elif r['usv_off']:
                        reason = 'use-site variance is disabled'
                    else:
                        can_cov, can_contra = vc.get(p[0], (True, True))
                        if a[1] == COV and not (can_cov and p[1] in (0, COV)):
                            reason = 'covariant projection not allowed here'
                        if a[1] == CONTRA and not (can_contra and not r['contra_off']
                                                   and p[1] in (0, CONTRA)):
                            reason = 'contravariant projection not allowed here'
                    if reason:
                        add('projection-not-allowed', '%s|%s' % (kind, reason.split()[0]),
                            '%s: argument %d = %s (%s)' % (where, i, tstr(a), reason))
        extra = {'probes': probes, 'obligations': obl, 'feats': list(feats)[:3000],
                 'ncalls': len(rec.inst),
                 'sample': {'config': plan['config'], 'instantiations': len(rec.inst),
                            'examples': [(r['kind'], r['name'], [tstr(a) for a in r['args']])
                                         for r in rec.inst[:5]]}}
        return list(v.values()), extra

    def collect(self, agg, res):
        d = agg.setdefault('c08', {'n': 0, 'feats': set()})
        d['n'] += res.get('ncalls', 0)
        d['feats'].update(res.get('feats') or ())

    def extra_evidence(self, agg):
        d = agg.get('c08') or {'n': 0, 'feats': set()}
        return {'evaluations': d['n'], 'distinct_nontrivial': len(d['feats']),
                'simulated_runs': agg['runs']}


CHECK = C08()
