"""C09 -- subtype search and irrelevant-type search return only what they promise."""
from sim import monitors, refrel
from sim.snap import tsnap, tstr, shape
from checks.c06 import MonitorCheck, class_decls


def why_not(S, T, tb):
    """coarse reason why S is not a subtype of T (for signatures)"""
    if S[0] == 'P' and T[0] == 'P' and S[1] == T[1]:
        ci = tb.classes.get(S[1])
        if ci is None or len(ci.params) != len(S[2]):
            return 'same-ctor|?'
        for p, a, b in zip(ci.params, S[2], T[2]):
            try:
                ok = refrel.contained(a, b, p[1], tb, 40)
            except (refrel.Unknown, RecursionError):
                continue
            if not ok:
                try:
                    rev = refrel.contained(b, a, p[1], tb, 40)
                except (refrel.Unknown, RecursionError):
                    rev = None
                return 'same-ctor|%s|%s-vs-%s|%s' % (
                    {0: 'inv', 1: 'cov', 2: 'contra'}[p[1]], shape(a, 1), shape(b, 1),
                    'reversed' if rev else 'unrelated')
        return 'same-ctor|?'
    return 'nominal|%s-vs-%s' % (shape(S, 1), shape(T, 1))


class C09(MonitorCheck):
    ID = 'C09'
    MON = ('C09',)
    RULE = ('one evaluation = one top-level call of find_subtypes, find_supertypes or '
            'find_irrelevant_type issued by the generator, the erasure analysis or the '
            'overwriting mutation during a simulated pipeline run, plus (post-run probe) both '
            'searches run once more for up to 25 types of the finished program against the '
            'program\'s own type pool; every returned type is judged against an independent '
            'declarative relation over the final class table; distinct non-trivial = distinct '
            '(search kind, query snapshot, result snapshot set) with a non-empty result')
    ASSUMPTIONS = ['ignore_variance=True searches are exempt from the subtype demand (the caller '
                   'asks for variance to be ignored)',
                   'results for which the reference relation is undetermined (projection at top '
                   'level, unknown class) are counted, not judged']
    PROBES = ('find_subtypes', 'find_supertypes', 'find_irrelevant_type', 'irrelevant_none',
              'parameterized_query', 'tvar_query', 'postrun_searches',
              'nested_small_pool_queries', 'irrelevant_related_impl_agrees')
    ROUNDS = (0, 1, 1)
    tiers = {'quick': {'runs': 260, 'wall_s': 70, 'run_timeout_s': 200},
             'thorough': {'runs': 4000, 'wall_s': 1100, 'run_timeout_s': 900}}

    def collect_before_overwriting(self, run, program):
        self.pool_types = None
        try:
            self.pool_types = program.get_types()
        except Exception:   # noqa
            pass

    def judge(self, run, obs, sim, plan):
        rec = self.rec
        v = {}
        probes = {}
        obl = {'subtype-of-query': 0, 'usable': 0, 'self-inclusion': 0, 'irrelevant-unrelated': 0,
               'undetermined': 0}
        feats = set()
        if run.program is None:
            monitors.Recorder.current = None
            return [], {'probes': probes, 'obligations': obl}
        tb = refrel.Table(run.program.bt_factory, class_decls(run.program))
        lang = plan['config']['language']
        # post-run probe: more reach, same oracle
        npost = 0
        if run.status == 'ok':
            from sim import walk
            from src.ir import types as tp, type_utils as tu
            types = getattr(self, 'pool_types', None)
            if types is None:
                try:
                    types = run.program.get_types()
                except Exception:   # noqa
                    types = None
            if types is not None and 'TypeOverwriting' not in [
                    t.get_name() for t in run.transformers if t.is_transformed]:
                seen = set()
                for node, attr, root, part, ppath in walk.iter_type_occurrences(run.program):
                    if ppath or not isinstance(part, (tp.ParameterizedType, tp.SimpleClassifier)):
                        continue
                    s = tsnap(part)
                    if s in seen or refrel.has_tvars(s):
                        continue
                    seen.add(s)
                    try:
                        tu.find_subtypes(part, types, include_self=npost % 2 == 0,
                                         concrete_only=True)
                        tu.find_irrelevant_type(part, types, run.program.bt_factory)
                    except Exception:   # noqa  (exceptions are C18's business)
                        pass
                    npost += 1
                    if npost >= 25:
                        break
            # small-pool probe for NESTED generic queries C<..D<..>..>: the irrelevant-type
            # search rebuilds such a type argument by argument from random candidates, and the
            # chance that it reassembles the very type it must avoid is ~1e-5 with the
            # program's whole pool but ~1e-2 with a pool of a handful of types.  Pools are made
            # of the constructors and leaves of the query itself plus two other program types;
            # all objects come from the final class table.
            if types is not None:
                decls = {d.name: d for d in class_decls(run.program)}
                simple = [d.get_type() for d in decls.values() if not d.type_parameters][:6]
                nq = 0
                seen2 = set()
                for node, attr, root, part, ppath in walk.iter_type_occurrences(run.program):
                    if not isinstance(part, tp.ParameterizedType) or part.name not in decls:
                        continue
                    inner = [a for a in part.type_args
                             if isinstance(a, tp.ParameterizedType) and a.name in decls]
                    if not inner:
                        continue
                    s = tsnap(part)
                    if s in seen2 or refrel.has_tvars(s) or refrel.has_wild(s):
                        continue
                    seen2.add(s)
                    pool = [decls[part.name].get_type()]
                    for a in inner:
                        pool.append(decls[a.name].get_type())
                        pool.extend(x for x in a.type_args
                                    if isinstance(x, (tp.SimpleClassifier, tp.Builtin)))
                    pool.extend(x for x in part.type_args
                                if isinstance(x, (tp.SimpleClassifier, tp.Builtin)))
                    pool.extend(simple[:2])
                    uniq = []
                    for x in pool:
                        if not any(x is y or tsnap(x) == tsnap(y) for y in uniq):
                            uniq.append(x)
                    for _ in range(40):
                        try:
                            tu.find_irrelevant_type(part, list(uniq), run.program.bt_factory)
                        except Exception:   # noqa
                            break
                        npost += 1
                    probes['nested_small_pool_queries'] = probes.get(
                        'nested_small_pool_queries', 0) + 1
                    nq += 1
                    if nq >= 4:
                        break
        monitors.Recorder.current = None
        probes['postrun_searches'] = npost

        def add(rule, what, q, r, detail):
            sig = '%s|%s|%s|%s' % (rule, what, shape(q), shape(r) if r else '-')
            if sig not in v:
                v[sig] = {'rule': rule, 'sig': sig, 'detail': '%s [lang=%s]' % (detail, lang)}

        for kind, q, res, inc, conc, ignv, caller, *more in rec.searches:
            name = {'sub': 'find_subtypes', 'super': 'find_supertypes',
                    'irrelevant': 'find_irrelevant_type'}[kind]
            probes[name] = probes.get(name, 0) + 1
            if q[0] == 'P':
                probes['parameterized_query'] = probes.get('parameterized_query', 0) + 1
            if q[0] == 'V':
                probes['tvar_query'] = probes.get('tvar_query', 0) + 1
            if res:
                feats.add(hash((kind, q, tuple(sorted(map(repr, res))))) & 0xffffffffff)
            if kind in ('sub', 'super'):
                for r in res:
                    if conc:
                        obl['usable'] += 1
                        if r[0] == 'TC':
                            add('uninstantiated-result', name, q, r,
                                '%s(%s, concrete_only=True) returned the bare constructor %s' % (
                                    name, tstr(q), tstr(r)))
                            continue
                    if r[0] == 'TC' or q[0] == 'TC' or ignv:
                        continue
                    if refrel.strip(r) == refrel.strip(q):
                        continue
                    if q[0] == 'W' and kind == 'sub':
                        # a use-site projection is not a type of its own: only a projection
                        # of the same direction with a contained bound is below it
                        obl['subtype-of-query'] += 1
                        ok = None
                        if r[0] != 'W':
                            ok = False
                        elif q[2] is not None and r[2] is not None and r[1] == q[1]:
                            ok = refrel.sub3(r[2], q[2], tb) if q[1] == refrel.COV else \
                                refrel.sub3(q[2], r[2], tb)
                        if ok is False:
                            sig = 'not-a-subtype|%s|projection-query|%s' % (
                                name, 'plain-result' if r[0] != 'W' else 'projection-result')
                            if sig not in v:
                                v[sig] = {'rule': 'not-a-subtype', 'sig': sig,
                                          'detail': '%s(%s) returned %s, which is not below the '
                                                    'projection (called from %s) [lang=%s]' % (
                                                        name, tstr(q), tstr(r), caller, lang)}
                        continue
                    obl['subtype-of-query'] += 1
                    ok = refrel.sub3(r, q, tb) if kind == 'sub' else refrel.sub3(q, r, tb)
                    if ok is None:
                        obl['undetermined'] += 1
                    elif ok is False:
                        sig = 'not-a-%stype|%s|%s' % (kind, name, why_not(
                            r if kind == 'sub' else q, q if kind == 'sub' else r, tb))
                        if sig not in v:
                            v[sig] = {'rule': 'not-a-%stype' % kind, 'sig': sig,
                                      'detail': '%s(%s) returned %s, which is not a %stype of '
                                                'the query (called from %s) [lang=%s]' % (
                                                    name, tstr(q), tstr(r), kind, caller, lang)}
                if q[0] != 'TC':
                    obl['self-inclusion'] += 1
                    has_self = any(refrel.strip(r) == refrel.strip(q) for r in res)
                    if inc and not has_self and kind == 'sub':
                        add('self-missing', name, q, None,
                            '%s(%s, include_self=True) does not contain the query' % (
                                name, tstr(q)))
                    if not inc and has_self:
                        add('self-included', name, q, q,
                            '%s(%s, include_self=False) contains the query itself' % (
                                name, tstr(q)))
            else:
                if not res:
                    probes['irrelevant_none'] = probes.get('irrelevant_none', 0) + 1
                    continue
                r = res[0]
                if tb.is_top(q):
                    add('irrelevant-for-top', name, q, r,
                        'find_irrelevant_type(%s) returned %s for the top type' % (
                            tstr(q), tstr(r)))
                    continue
                qq = q
                if q[0] == 'V':
                    qq = q[3]
                    if qq is None:
                        continue          # unbounded variable: any type is "irrelevant"
                while qq is not None and qq[0] == 'V':
                    qq = qq[3]
                if qq is None or tb.is_top(qq):
                    continue
                obl['irrelevant-unrelated'] += 1
                if refrel.strip(r) == refrel.strip(qq) and r[0] == 'P':
                    # the query itself (or the bound of the queried variable) handed back
                    sig = 'irrelevant-is-the-query|%s|%s' % (name, shape(qq, 1))
                    if sig not in v:
                        v[sig] = {'rule': 'irrelevant-is-the-query', 'sig': sig,
                                  'detail': 'find_irrelevant_type(%s) returned %s, i.e. the type '
                                            'it was asked to avoid (called from %s) [lang=%s]' % (
                                                tstr(q), tstr(r), caller, lang)}
                    continue
                a, b = refrel.sub3(r, qq, tb), refrel.sub3(qq, r, tb)
                if a is None or b is None:
                    obl['undetermined'] += 1
                if a or b:
                    rkind = 'top' if tb.is_top(r) else {'P': 'generic-instantiation',
                                                        'C': 'class', 'B': 'builtin'}.get(r[0], r[0])
                    if (r[0] == 'B' and r[2]) or (qq[0] == 'B' and qq[2]):
                        rkind += '~primitive'
                    sig = 'irrelevant-is-related|%s|%s|%s' % (
                        name, 'subtype' if a else 'supertype', rkind)
                    chained = q[0] == 'V' and q[3] is not None and q[3][0] == 'V'
                    if more and more[0] is True and rkind in ('class', 'builtin') \
                            and not chained:
                        # a plain class / non-primitive built-in that the implementation's own
                        # is_subtype relates to the query on the live objects: neither the
                        # stale-object class of C09-K1 nor the boxing class of C09-K2, so it is
                        # kept out of their signatures (generic instantiations and variables
                        # bounded by variables keep the old signature: the baseline produces
                        # them with the implementation agreeing, which is what K1 records)
                        sig += '|impl-agrees'
                        probes['irrelevant_related_impl_agrees'] = probes.get(
                            'irrelevant_related_impl_agrees', 0) + 1
                    if sig not in v:
                        v[sig] = {'rule': 'irrelevant-is-related', 'sig': sig,
                                  'detail': 'find_irrelevant_type(%s) returned %s, which is a %s '
                                            'of the query (called from %s) [lang=%s]' % (
                                                tstr(q), tstr(r), 'subtype' if a else 'supertype',
                                                caller, lang)}
        extra = {'probes': probes, 'obligations': obl, 'feats': list(feats)[:2000],
                 'ncalls': len(rec.searches),
                 'sample': {'config': plan['config'], 'searches': len(rec.searches),
                            'examples': [(k, tstr(q), [tstr(x) for x in res[:4]])
                                         for k, q, res, *_ in rec.searches[:5]]}}
        return list(v.values()), extra

    def collect(self, agg, res):
        d = agg.setdefault('c09', {'n': 0, 'feats': set()})
        d['n'] += res.get('ncalls', 0)
        d['feats'].update(res.get('feats') or ())

    def extra_evidence(self, agg):
        d = agg.get('c09') or {'n': 0, 'feats': set()}
        return {'evaluations': d['n'], 'distinct_nontrivial': len(d['feats']),
                'simulated_runs': agg['runs']}


CHECK = C09()
