"""C16 -- the symbol table behaves like a scoped map (model-based op histories)."""
import collections
import copy
import hashlib
import pickle

from sim.core import h64

KINDS = ['types', 'funcs', 'lambdas', 'vars', 'classes']
DECL_KINDS = ('funcs', 'vars', 'classes')
SEGS = ['a', 'b', 'C', 'D']
NAMESPACES = [('global',)] + [('global', x) for x in SEGS] + \
    [('global', x, y) for x in SEGS for y in SEGS if x != y][:8] + \
    [('global', 'a', 'b', 'C'), ('global', 'C', 'a', 'D'), ('global', 'a', 'b', 'C', 'D')] + \
    [('global', 'a', 'a'), ('global', 'a', 'b', 'a'), ('global', 'C', 'C'),
     ('global', 'a', 'a', 'b')]     # a path may repeat a component (local function named like
                                    # its enclosing one, nested true_block scopes)
NAMES = {k: [k[0] + n for n in ('a', 'b', 'C', 'D', 'x')] for k in KINDS}
# funcs and classes use the segment names so that they create reachable namespaces;
# names are kind-specific (the generator never gives a variable and a function one name)
NAMES['funcs'] = ['a', 'b', 'fx']
NAMES['classes'] = ['C', 'D', 'Cx']
ADDERS = {'types': 'add_type', 'funcs': 'add_func', 'lambdas': 'add_lambda', 'vars': 'add_var',
          'classes': 'add_class'}
REMOVERS = {'types': 'remove_type', 'funcs': 'remove_func', 'lambdas': 'remove_lambda',
            'vars': 'remove_var', 'classes': 'remove_class'}


class Violation(Exception):
    def __init__(self, label, detail):
        super().__init__('%s: %s' % (label, detail))
        self.label = label
        self.detail = detail


class World:
    """the real Context next to the reference scoped-map model"""

    def __init__(self):
        from src.ir.context import Context
        self.ctx = Context()
        self.model = {}          # ns -> kind -> dict (insertion ordered)
        self.rev = {}            # key -> ns
        self.vals = []           # every value ever created (for restart remap)
        self.removed = []        # watch list: removed declarations
        self.i = 0
        self.ops = []

    @staticmethod
    def mk(kind, name, i):
        from src.ir import ast, types as tp, kotlin_types as kt
        T = kt.Integer
        if kind == 'types':
            return tp.TypeParameter(name)
        if kind == 'funcs':
            return ast.FunctionDeclaration(name, [], T, None, ast.FunctionDeclaration.FUNCTION)
        if kind == 'lambdas':
            return ast.Lambda(name, [], T, None, None)
        if kind == 'vars':
            return ast.VariableDeclaration(name, ast.IntegerConstant(i, T), var_type=T)
        return ast.ClassDeclaration(name, [])

    @staticmethod
    def key(v):
        from src.ir import types as tp
        return ('T', v.name) if isinstance(v, tp.TypeParameter) else id(v)

    def _ns(self, ns):
        if ns not in self.model:
            self.model[ns] = {k: {} for k in KINDS + ['decls']}
        return self.model[ns]

    # -- operations ------------------------------------------------------------------
    def apply(self, op):
        self.ops.append(list(op))
        getattr(self, 'op_' + op[0])(*op[1:])
        self.check()

    def op_add(self, kind, nsi, n):
        ns = NAMESPACES[nsi % len(NAMESPACES)]
        name = NAMES[kind][n % len(NAMES[kind])]
        self.i += 1
        v = self.mk(kind, name, self.i)
        self.vals.append(v)
        getattr(self.ctx, ADDERS[kind])(ns, name, v)
        m = self._ns(ns)
        m[kind][name] = v
        if kind in DECL_KINDS:
            m['decls'][name] = v
        self.rev[self.key(v)] = ns

    def op_remove(self, kind, nsi, n):
        ns = NAMESPACES[nsi % len(NAMESPACES)]
        name = NAMES[kind][n % len(NAMES[kind])]
        getattr(self.ctx, REMOVERS[kind])(ns, name)
        if ns in self.model:
            m = self.model[ns]
            for k in ([kind, 'decls'] if kind in DECL_KINDS else [kind]):
                if name in m[k]:
                    v = m[k].pop(name)
                    self.rev.pop(self.key(v), None)
                    self.removed.append(v)

    def op_remove_nth(self, k):
        ents = [(ns, kind, name) for ns, m in self.model.items() for kind in KINDS
                for name in m[kind]]
        if not ents:
            return
        ns, kind, name = ents[k % len(ents)]
        self.op_remove(kind, NAMESPACES.index(ns), NAMES[kind].index(name))

    def op_readd_nth(self, k):
        """add a new value under a name that already exists (most-recent-wins)"""
        ents = [(ns, kind, name) for ns, m in self.model.items() for kind in KINDS
                for name in m[kind]]
        if not ents:
            return
        ns, kind, name = ents[k % len(ents)]
        self.op_add(kind, NAMESPACES.index(ns), NAMES[kind].index(name))

    def op_restart(self, how):
        from src.ir import types as tp
        if how == 'pickle':
            ctx, vals = pickle.loads(pickle.dumps((self.ctx, self.vals)))
        else:
            ctx, vals = copy.deepcopy((self.ctx, self.vals))
        remap = {id(o): n for o, n in zip(self.vals, vals)}

        def r(v):
            return v if isinstance(v, tp.TypeParameter) else remap[id(v)]
        for ns, m in self.model.items():
            for k in m:
                m[k] = {name: r(v) for name, v in m[k].items()}
        self.rev = {(kk if isinstance(kk, tuple) else id(remap[kk])): ns
                    for kk, ns in self.rev.items()}
        self.removed = [r(v) for v in self.removed]
        self.ctx, self.vals = ctx, vals

    # -- reference queries ------------------------------------------------------------
    def m_current(self, ns, kind):
        return dict(self.model.get(ns, {}).get(kind, {}))

    def m_path(self, ns, kind):
        out = {}
        for i in range(1, len(ns) + 1):
            out.update(self.model.get(ns[:i], {}).get(kind, {}))
        return out

    def m_reachable(self):
        seen = []
        stack = [('global',)]
        while stack:
            n = stack.pop()
            seen.append(n)
            m = self.model.get(n, {})
            for name in list(m.get('funcs', {})) + list(m.get('classes', {})):
                stack.append(n + (name,))
        return seen

    def check(self):
        from src.ir.context import get_decl
        ctx = self.ctx
        getters = {'types': ctx.get_types, 'funcs': ctx.get_funcs, 'lambdas': ctx.get_lambdas,
                   'vars': ctx.get_vars, 'classes': ctx.get_classes,
                   'decls': ctx.get_declarations}
        reach = self.m_reachable()
        self.nqueries = getattr(self, 'nqueries', 0)

        def need(cond, label, detail):
            self.nqueries += 1
            if not cond:
                raise Violation(label, detail)
        for ns in NAMESPACES:
            for kind, g in getters.items():
                cur = g(ns, only_current=True)
                need(dict(cur) == self.m_current(ns, kind), 'current|' + kind,
                     'current-namespace query %s in %s' % (kind, ns))
                need(list(cur) == list(self.m_current(ns, kind)), 'order|' + kind,
                     'insertion order of %s in %s' % (kind, ns))
                pth = g(ns)
                need(dict(pth) == self.m_path(ns, kind), 'path|' + kind,
                     'enclosing-scope query %s from %s: got %s want %s' % (
                         kind, ns, sorted(pth), sorted(self.m_path(ns, kind))))
                gl = g(ns, glob=True)
                allowed = collections.defaultdict(list)
                for r_ in reach:
                    for name, v in self.model.get(r_, {}).get(kind, {}).items():
                        allowed[name].append(v)
                need(set(gl) == set(allowed), 'glob-names|' + kind,
                     'global query %s: names differ by %s' % (kind, sorted(set(gl) ^ set(allowed))))
                for name, v in gl.items():
                    need(any(v is a or v == a for a in allowed[name]), 'glob-value|' + kind,
                         'global query %s returns a foreign value for %s' % (kind, name))
            fn = ctx.find_namespaces(ns, False)
            m = self.model.get(ns, {})
            want_fn = [ns + (f,) for f in m.get('funcs', {})] + \
                      [ns + (c,) for c in m.get('classes', {})]
            need(fn == want_fn, 'find_namespaces', 'find_namespaces(%s) = %s, want %s' % (
                ns, fn, want_fn))
            for kind in DECL_KINDS:
                for name in NAMES[kind]:
                    exp = self.model.get(ns, {}).get('decls', {}).get(name)
                    need(ctx.get_decl(ns, name) is exp, 'get_decl|' + kind,
                         'get_decl(%s, %s)' % (ns, name))
                    want = None
                    n2 = ns
                    while len(n2):
                        d = self.model.get(n2, {}).get('decls', {}).get(name)
                        if d is not None:
                            want = (n2, d)
                            break
                        n2 = n2[:-1]
                    got = get_decl(ctx, ns, name)
                    ok = (got is None and want is None) or (
                        got is not None and want is not None and got[0] == want[0]
                        and got[1] is want[1])
                    need(ok, 'lookup|' + kind, 'lookup of %s from %s: got %s want %s' % (
                        name, ns, got and got[0], want and want[0]))
        # get_namespaces_decls over the reachable tree
        for kind in ('funcs', 'classes', 'vars'):
            for name in NAMES[kind]:
                got = ctx.get_namespaces_decls(('global',), name, kind, glob=True)
                want = set()
                for r_ in reach:
                    d = self.model.get(r_, {}).get(kind, {}).get(name)
                    if name in self.model.get(r_, {}).get(kind, {}):
                        want.add((r_ + (name,), id(d)))
                need({(n_, id(d)) for n_, d in got} == want, 'namespaces_decls|' + kind,
                     'get_namespaces_decls(%s, %s)' % (name, kind))
        for ns, m in self.model.items():
            for kind in KINDS:
                for name, v in m[kind].items():
                    need(ctx.get_namespace(v) == self.rev.get(self.key(v)), 'reverse|' + kind,
                         'reverse lookup of %s %s added in %s answers %s' % (
                             kind, name, ns, ctx.get_namespace(v)))
        for v in self.removed:
            need(ctx.get_namespace(v) == self.rev.get(self.key(v)), 'reverse-removed',
                 'reverse lookup of removed %s still answers %s' % (
                     getattr(v, 'name', None), ctx.get_namespace(v)))


def exec_ops(ops):
    """-> (violation dict | None, world)"""
    w = World()
    try:
        for op in ops:
            w.apply(tuple(op))
    except Violation as e:
        return {'rule': e.label.split('|')[0], 'sig': e.label,
                'detail': '%s (after %d operations)' % (e.detail, len(w.ops))}, w
    return None, w


def ops_hash(ops):
    return hashlib.sha1(repr(ops).encode()).hexdigest()[:12]


class C16:
    ID = 'C16'
    LEVEL = 'exploration'
    RULE = ('one evaluation = one op history (<= 30 steps) of add/remove of the five entity '
            'kinds over a namespace tree of depth <= 5 plus restart operations (pickle round trip '
            'and deepcopy of the Context: the faults this object meets in the tool), generated '
            'and shrunk by a seeded Hypothesis RuleBasedStateMachine run outside pytest; after '
            'EVERY step all queries (current / enclosing-path / global for 6 kinds x 18 '
            'namespaces, get_decl, module-level lookup, find_namespaces, get_namespaces_decls, '
            'reverse lookup incl. removed declarations) are compared with a reference scoped-map '
            'model; distinct non-trivial = distinct op sequences with >= 3 steps')
    ASSUMPTIONS = ['names are kind-specific, as in the generator',
                   'two equal TypeParameters are one key of the reverse index (value equality)',
                   'for global queries any of the reachable same-name entries is accepted']
    COMPONENTS = {'real': ['src/ir/context.py (Context, get_decl)', 'src/ir/ast.py declarations',
                           'pickle / deepcopy of the Context'],
                  'simulated': ['operation and restart sequence (seeded Hypothesis)'],
                  'stub': []}
    PROBES = ('restart_pickle', 'restart_deepcopy', 'removed_watch', 'shadowing')
    tiers = {'quick': {'runs': 400, 'wall_s': 100, 'run_timeout_s': 300, 'examples': 40},
             'thorough': {'runs': 6000, 'wall_s': 1100, 'run_timeout_s': 600, 'examples': 60}}

    def run_one(self, run_seed, plan=None):
        if plan and plan.get('ops') is not None:
            viol, w = exec_ops(plan['ops'])
            return {'status': 'ok', 'violations': [viol] if viol else [],
                    'plan': plan, 'digest': ops_hash(plan['ops']), 'feature': ops_hash(plan['ops'])}
        return self._hyp(run_seed, plan or {})

    def _hyp(self, run_seed, plan):
        import os
        from hypothesis import settings, seed, strategies as st, HealthCheck
        from hypothesis.stateful import RuleBasedStateMachine, rule, run_state_machine_as_test
        stats = {'hist': [], 'steps': 0, 'queries': 0, 'probes': collections.Counter(),
                 'last_fail': None, 'sample': None}
        nex = int(plan.get('examples') or
                  self.tiers[os.environ.get('VERIF_TIER_INTERNAL', 'quick')]['examples'])

        class M(RuleBasedStateMachine):
            def __init__(self):
                super().__init__()
                self.w = World()

            def _do(self, op):
                try:
                    self.w.apply(op)
                except Violation as e:
                    stats['last_fail'] = (e, [list(o) for o in self.w.ops])
                    raise

            @rule(kind=st.sampled_from(KINDS), ns=st.integers(0, len(NAMESPACES) - 1),
                  n=st.integers(0, 4))
            def add(self, kind, ns, n):
                self._do(('add', kind, ns, n))

            @rule(kind=st.sampled_from(KINDS), ns=st.integers(0, len(NAMESPACES) - 1),
                  n=st.integers(0, 4))
            def remove(self, kind, ns, n):
                self._do(('remove', kind, ns, n))

            @rule(kind=st.sampled_from(DECL_KINDS), ns=st.integers(0, len(NAMESPACES) - 1),
                  n=st.integers(0, 4))
            def add_decl(self, kind, ns, n):
                self._do(('add', kind, ns, n))

            @rule(k=st.integers(0, 60))
            def remove_existing(self, k):
                self._do(('remove_nth', k))

            @rule(k=st.integers(0, 60))
            def readd_existing(self, k):
                self._do(('readd_nth', k))

            @rule(how=st.sampled_from(['pickle', 'deepcopy']))
            def restart(self, how):
                stats['probes']['restart_' + how] += 1
                self._do(('restart', how))

            def teardown(self):
                ops = self.w.ops
                stats['steps'] += len(ops)
                stats['queries'] += getattr(self.w, 'nqueries', 0)
                if len(ops) >= 3:
                    stats['hist'].append(ops_hash(ops))
                if self.w.removed:
                    stats['probes']['removed_watch'] += 1
                if any(len(ns) > 1 and any(self.w.model.get(ns[:i], {}).get('decls')
                                           for i in range(1, len(ns)))
                       for ns in self.w.model if self.w.model[ns].get('decls')):
                    stats['probes']['shadowing'] += 1
                if stats['sample'] is None and len(ops) >= 8:
                    stats['sample'] = {'ops': [list(o) for o in ops[:30]]}

        violations = []
        p = None
        try:
            run_state_machine_as_test(
                seed(run_seed & 0xffffffffffff)(M),
                settings=settings(max_examples=nex, stateful_step_count=30, database=None,
                                  deadline=None, report_multiple_bugs=False,
                                  suppress_health_check=list(HealthCheck)))
        except Violation as e:
            # Hypothesis replays the minimal failing example last
            err, ops = stats['last_fail']
            viol, _ = exec_ops(ops)
            if viol is None:
                raise RuntimeError('minimal history does not reproduce: %r' % (ops,))
            violations.append(viol)
            p = {'run_seed': run_seed, 'ops': ops}
        return {'status': 'ok', 'violations': violations, 'plan': p,
                'digest': hashlib.sha1(''.join(stats['hist']).encode()).hexdigest()[:16],
                'feature': '', 'hist': stats['hist'], 'nsteps': stats['steps'],
                'probes': dict(stats['probes']),
                'obligations': {'queries_compared': stats['queries'], 'steps': stats['steps']},
                'faults': {'restart_pickle': stats['probes'].get('restart_pickle', 0),
                           'restart_deepcopy': stats['probes'].get('restart_deepcopy', 0)},
                'sim_ms': 0, 'sample': stats['sample']}

    def collect(self, agg, res):
        d = agg.setdefault('c16', {'hist': set(), 'n': 0})
        h = res.get('hist') or ()
        d['n'] += len(h)
        d['hist'].update(h)

    def extra_evidence(self, agg):
        d = agg.get('c16') or {'hist': set(), 'n': 0}
        return {'evaluations': d['n'], 'distinct_nontrivial': len(d['hist']),
                'hypothesis_batches': agg['runs']}


CHECK = C16()
