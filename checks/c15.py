"""C15 -- the driver reports a fault exactly on an oracle mismatch and counts correctly."""
import json
import os
import random as _pyrandom

from sim import driver, pipeline
from sim.core import Sim, SimAbort, SimBudget, h64
from sim.runner import in_child

# import the driver before any simulated run: its import draws from src.utils.random, which
# would otherwise happen inside (and be charged to) the first session of each worker
driver.hmod()

LANGS = ('java', 'kotlin', 'groovy', 'scala')
FILES = {'java': ('Main.java', 'Incorrect.java'), 'kotlin': ('program.kt', 'incorrect.kt'),
         'groovy': ('Main.groovy', 'incorrect.groovy'), 'scala': ('program.scala', 'incorrect.scala')}


def make_plan(run_seed):
    r = _pyrandom.Random(h64(run_seed, 'plan'))
    p = {'run_seed': run_seed, 'language': r.choice(LANGS)}
    p['mode'] = 'pool' if r.random() < 0.5 else 'seq'
    p['workers'] = r.randint(1, 4)
    if r.random() < 0.8:
        p['iterations'] = r.randint(1, 8)
        n = p['iterations']
    else:
        p['seconds'] = r.randint(1, 30)
        n = 24
    p['batch'] = r.choice([1, 1, 2, 3, 4, 5])
    p['t'] = r.choice([0, 0, 1, 2])
    p['P'] = r.random() < 0.25
    p['keep_all'] = r.random() < 0.2
    p['dry_run'] = r.random() < 0.08
    p['generator'] = 'real' if r.random() < 0.06 else 'stub'
    p['max_depth'] = r.randint(1, 3)
    gf = r.choice([0, 0, 0.1, 0.25])
    ce = r.choice([0, 0.2, 0.4])
    ia = r.choice([0, 0.15, 0.4])
    progs = {}
    for pid in range(1, n + 1):
        s = {}
        if r.random() < gf:
            s['genfail'] = r.choice(['get_program', 'transform', 'inject'])
        s['injectable'] = r.random() < 0.85
        s['transformed'] = r.random() < 0.7
        s['correct_errors'] = r.randint(1, 3) if r.random() < ce else 0
        s['incorrect_errors'] = 0 if r.random() < ia else r.randint(1, 2)
        progs[str(pid)] = s
    p['programs'] = progs
    cr = r.choice([0, 0, 0.1, 0.25])
    batches = {}
    for k in range(1, n + 1):
        b = {'noise': r.choice([0, 0.3, 0.8]), 'interleave': r.random() < 0.5,
             'duration': r.choice([0.5, 1.0, 3.0, 10.0])}
        if r.random() < cr:
            b['crash'] = 'so' if (p['language'] == 'groovy' and r.random() < 0.3) else 'trace'
        batches[str(k)] = b
    p['batches'] = batches
    return p


class C15:
    ID = 'C15'
    LEVEL = 'exploration'
    RULE = ('one evaluation = one whole simulated session of the real hephaestus.py (main -> '
            'run / run_parallel) under a seeded plan: language, sequential or worker-pool mode '
            '(simulated pool: the scheduler picks which runnable task or pending callback runs '
            'next), --iterations or --seconds, --batch, -t, -P, --keep-all, --dry-run, per program '
            'tool failure at a seeded stage / injection available / compiler verdict for the '
            'correct and for the incorrect file, per batch compiler crash, noise, diagnostic '
            'order and compile duration on the simulated clock; the oracle is an independent '
            'decision table + counter ledger + directory-tree model evaluated after every batch '
            'and at the end; distinct non-trivial = distinct (plan digest) sessions that compiled '
            'at least one batch')
    ASSUMPTIONS = [
        'the compiler is a scripted peer (sim/simcompiler.py); its verdicts are the ground truth',
        'when both files of one program mismatch, either corresponding message is accepted',
        'stub-generator sessions serve a small real IR program through a ProgramProcessor '
        'stand-in; real-generator sessions (6 %) run the real ProgramProcessor at depth <= 3',
        'a simulated pool task runs to completion once scheduled (worker processes share only '
        'the file system)']
    COMPONENTS = {
        'real': ['hephaestus.py (main, run, run_parallel, _run, gen_program, gen_program_mul, '
                 'process_cp/ncp_transformations, check_oracle, check_oracle_mul, update_stats, '
                 'save_stats, stop_condition, get_batches)', 'src/compilers/* (command, regexes, '
                 'analyze_compiler_output)', 'src/translators/*', 'utils.dump/save',
                 'file system (sandbox under /dev/shm)'],
        'simulated': ['compiler process (run_command)', 'multiprocessing.Pool', 'time / datetime',
                      'tempfile.mkdtemp', 'PRNG'],
        'stub': ['ProgramProcessor in stub-generator sessions (94 %)', 'args parsing (cli_args '
                 'fields are rewritten per session)'],
    }
    PROBES = ('pool', 'seq', 'seconds', 'crash_batch', 'tool_failure', 'rejected_correct',
              'accepted_incorrect', 'both_mismatch', 'dry_run', 'keep_all', 'real_generator',
              'batch>1', 'callback_delayed')
    tiers = {'quick': {'runs': 1500, 'wall_s': 100, 'run_timeout_s': 300},
             'thorough': {'runs': 40000, 'wall_s': 1100, 'run_timeout_s': 600}}

    # ---------------------------------------------------------------------------------
    def run_one(self, run_seed, plan=None):
        if plan is None:
            plan = make_plan(run_seed)
        sim = Sim(plan['run_seed'], buggify=False, budget=6_000_000, language=plan['language'])
        sim.install(plan['language'])
        s = driver.Session(plan['run_seed'], plan, sim)
        status = 'ok'
        try:
            try:
                s.run()
            except SimBudget:
                status = 'budget'
            v, extra = self.judge(s, plan, status)
        finally:
            s.cleanup()
        rec = {'status': status, 'violations': v,
               'digest': sim.log_digest(), 'sim_ms': (sim.now - 1_600_000_000.0) * 1000.0,
               'feature': (plan_digest(plan) if s.compiles else ''),
               'plan': plan if v else None}
        rec.update(extra)
        return rec

    # ---------------------------------------------------------------------------------
    def judge(self, s, plan, status):
        H = driver.hmod()
        v = []
        probes = {plan['mode']: 1}
        lang = plan['language']
        faults = {}
        obl = {'reported-set': 0, 'message': 0, 'counter-ledger': 0, 'dir-model': 0,
               'termination': 0}

        def add(rule, shape, detail):
            v.append({'rule': rule, 'sig': '%s|%s' % (rule, shape), 'detail': detail})

        for k, flag in (('seconds', plan.get('seconds')), ('dry_run', plan.get('dry_run')),
                        ('keep_all', plan.get('keep_all')),
                        ('real_generator', plan.get('generator') == 'real'),
                        ('batch>1', plan.get('batch', 1) > 1)):
            if flag:
                probes[k] = 1
        if status != 'ok':
            return [], {'probes': probes}
        sess_dir = os.path.join(s.root, 'bugs', 'sess')
        if s.exc is not None:
            e = s.exc
            et, frames = pipeline.exc_signature(e)
            add('session-dies', '%s|%s' % (et, '<'.join(reversed(frames))),
                'the session ended with %s (mode=%s, programs so far %d)' % (
                    driver.exc_brief(e), plan['mode'], len(s.results)))
        # ---- independent decision table -------------------------------------------
        file2compile = {}
        for c in s.compiles:
            for f in c['files']:
                file2compile[f] = c
        expected = {}     # pid -> set of acceptable kinds
        for pid, res in s.results.items():
            ps = s.prog_script(pid)
            if plan.get('dry_run'):
                # nothing is compiled: the statement ("for every batch that is compiled")
                # does not apply; counters, termination and directories are still checked
                continue
            if pid in s.genfail or res.failed:
                expected[pid] = {'tool'}
                probes['tool_failure'] = 1
                continue
            progs = res.stats['programs']
            comp = None
            for f in progs:
                comp = file2compile.get(f) or comp
            if comp is None:
                if s.exc is None:
                    add('not-compiled', 'program', 'program %d was generated but its files were '
                        'never handed to the compiler' % pid)
                continue
            if comp['crash']:
                expected[pid] = {'crash'}
                probes['crash_batch'] = 1
                continue
            kinds = set()
            for f, oracle in progs.items():
                has_err = bool(comp['truth'].get(f))
                if oracle and has_err:
                    kinds.add('rejected')
                    probes['rejected_correct'] = 1
                if (not oracle) and not has_err:
                    kinds.add('accepted')
                    probes['accepted_incorrect'] = 1
            if len(kinds) == 2:
                probes['both_mismatch'] = 1
            if kinds:
                expected[pid] = kinds
        faults['D1_correct_rejected'] = sum(1 for k in expected.values() if 'rejected' in k)
        faults['D2_incorrect_accepted'] = sum(1 for k in expected.values() if 'accepted' in k)
        faults['D3_compiler_crash_batches'] = sum(1 for c in s.compiles if c['crash'])
        faults['D4_tool_failures'] = len(s.genfail)
        faults['D5_noise_batches'] = sum(1 for k in range(1, len(s.compiles) + 1)
                                         if s.batch_script(k).get('noise'))
        faults['D6_interleaved_batches'] = sum(1 for k in range(1, len(s.compiles) + 1)
                                               if s.batch_script(k).get('interleave'))
        faults['D8_pool_schedule_choices'] = len(s.sched_log)
        faults['D9_clock_compile_durations'] = len(s.compiles)
        faults['D10_batch_gt1'] = 1 if plan.get('batch', 1) > 1 else 0
        if any(x.startswith('cb:') for x in s.sched_log):
            # a callback ran after a later task was already scheduled
            seen_cb_wait = False
            pend = 0
            for x in s.sched_log:
                if x == 'task:check_oracle_mul':
                    pend += 1
                elif x.startswith('cb:'):
                    pend -= 1
                elif x == 'task:gen_program_mul' and pend > 0:
                    seen_cb_wait = True
            if seen_cb_wait:
                probes['callback_delayed'] = 1
        if s.exc is None:
            # ---- reported set and messages ------------------------------------------
            try:
                with open(os.path.join(sess_dir, 'faults.json')) as f:
                    fj = json.load(f)
                with open(os.path.join(sess_dir, 'stats.json')) as f:
                    sj = json.load(f)
            except (OSError, ValueError) as e:
                add('stats-files', type(e).__name__, 'faults.json / stats.json unreadable: %s' % e)
                fj, sj = None, None
            if fj is not None:
                got = {int(k): val for k, val in fj.items()}
                obl['reported-set'] += len(s.results)
                for pid in sorted(set(expected) - set(got)):
                    kind = '+'.join(sorted(expected[pid]))
                    comp_crash = kind == 'tool' and self._in_crash_batch(s, pid)
                    add('fault-not-reported', kind + ('|in-crash-batch' if comp_crash else ''),
                        'program %d should be reported (%s) but is not in faults.json '
                        '(mode=%s batch=%d)' % (pid, kind, plan['mode'], plan.get('batch', 1)))
                for pid in sorted(set(got) - set(expected)):
                    add('spurious-fault', 'reported', 'program %d is reported (%r) although no '
                        'oracle mismatch exists' % (pid, str(got[pid].get('error'))[:80]))
                for pid in sorted(set(got) & set(expected)):
                    obl['message'] += 1
                    msg = got[pid].get('error') or ''
                    bad = self._message_ok(s, pid, expected[pid], msg, lang)
                    if bad:
                        add('wrong-message', bad, 'program %d (%s): message %r' % (
                            pid, '+'.join(sorted(expected[pid])), msg[:160]))
                # ---- counters ----------------------------------------------------------
                obl['counter-ledger'] += len(s.updates) + 1
                tot = sj['totals']
                nproc = len(s.results)
                if tot['passed'] + tot['failed'] != nproc:
                    add('counter-sum', 'final', 'passed %d + failed %d != %d programs processed' % (
                        tot['passed'], tot['failed'], nproc))
                if tot['failed'] != len(got):
                    add('failed-count', 'final', 'failed=%d but faults.json lists %d programs' % (
                        tot['failed'], len(got)))
                prev = 0
                for (pa, fa, keys) in s.updates:
                    if pa + fa < prev or fa != len(keys):
                        add('counter-ledger', 'per-batch', 'after a batch: passed=%d failed=%d '
                            'faults listed=%d (previous sum %d)' % (pa, fa, len(keys), prev))
                        break
                    prev = pa + fa
                # ---- termination --------------------------------------------------------
                obl['termination'] += 1
                if plan.get('iterations'):
                    if nproc != plan['iterations']:
                        add('iterations', 'count', '%d programs processed with --iterations %d' % (
                            nproc, plan['iterations']))
                # ---- directory model ----------------------------------------------------
                obl['dir-model'] += 1
                want_dirs = {str(pid) for pid, kinds in expected.items()
                             if kinds != {'tool'} and pid in got}
                have = set(d for d in os.listdir(sess_dir) if d.isdigit()) \
                    if os.path.isdir(sess_dir) else set()
                if have != want_dirs:
                    add('dir-model', 'saved-test-cases', 'session directory holds test cases %s, '
                        'expected %s' % (sorted(have), sorted(want_dirs)))
                for d in sorted(have & want_dirs):
                    names = set(os.listdir(os.path.join(sess_dir, d)))
                    cf, icf = FILES[lang]
                    need = {cf, cf + '.bin'}
                    res = s.results[int(d)]
                    if len(res.stats['programs']) == 2:
                        need |= {icf, icf + '.bin'}
                    if not need <= names:
                        add('dir-model', 'test-case-content', 'test case %s holds %s, needs %s' % (
                            d, sorted(names), sorted(need)))
                allowed_top = {'faults.json', 'stats.json'} | have
                if plan.get('keep_all'):
                    allowed_top |= {'generator', 'transformations'}
                extra_top = set(os.listdir(sess_dir)) - allowed_top
                if extra_top:
                    add('dir-model', 'left-behind|' + '+'.join(
                        sorted(x if not x.isdigit() else 'pid' for x in extra_top)),
                        'session directory still holds %s at the end' % sorted(extra_top))
                left = [d for d in os.listdir(s.root) if d.startswith('tmp')]
                if left and not plan.get('dry_run'):
                    add('dir-model', 'batch-dir-left', '%d batch temp directories left behind' %
                        len(left))
        seen = set()
        out = []
        for x in v:
            if x['sig'] not in seen:
                seen.add(x['sig'])
                out.append(x)
        extra = {'probes': probes, 'obligations': obl, 'faults': {k: n for k, n in faults.items() if n},
                 'sample': {'plan': {k: plan[k] for k in plan if k not in ('programs', 'batches')},
                            'programs': len(s.results), 'compiles': len(s.compiles),
                            'expected_faults': {str(k): sorted(x) for k, x in expected.items()},
                            'schedule': s.sched_log[:30]}}
        return out, extra

    @staticmethod
    def _in_crash_batch(s, pid):
        """was the (tool-failed) program part of a batch on which the compiler crashed?"""
        pids = sorted(s.results)
        for c in s.compiles:
            if not c['crash']:
                continue
            owners = [o[0] for o in c['owner'].values() if o and o[0] is not None]
            if owners and min(owners) <= pid <= max(owners) + 5:
                # batches are contiguous pid ranges
                b = s.plan.get('batch', 1)
                lo = min(owners)
                start = lo - ((lo - 1) % b) if not s.plan.get('seconds') else lo
                if start <= pid < start + b:
                    return True
        return False

    @staticmethod
    def _message_ok(s, pid, kinds, msg, lang):
        if kinds == {'tool'}:
            return None if 'injected tool failure' in msg or s.prog_script(pid).get('genfail') \
                is None else 'tool-message'
        if kinds == {'crash'}:
            marks = {'java': 'java.lang.', 'kotlin': 'org.jetbrains', 'groovy': 'java.lang.',
                     'scala': 'dotty'}
            return None if marks[lang] in msg else 'crash-message'
        ok = False
        if 'accepted' in kinds and msg.startswith('SHOULD NOT BE COMPILED: ') and \
                s.inject_msg(pid) in msg:
            ok = True
        if 'accepted' in kinds and s.plan.get('generator') == 'real' and \
                msg.startswith('SHOULD NOT BE COMPILED: ') and ' expected but ' in msg:
            ok = True
        if 'rejected' in kinds and not msg.startswith('SHOULD NOT BE COMPILED'):
            res = s.results[pid]
            cf = [f for f, o in res.stats['programs'].items() if o][0]
            truth = None
            for c in s.compiles:
                if cf in c['truth']:
                    truth = c['truth'][cf]
            first = [m.split('\n')[0] for m in truth or ()]
            if first and all(fm.replace('-', ' ') in msg.replace('-', ' ') for fm in first):
                ok = True
        if ok:
            return None
        return 'mismatch-message|' + '+'.join(sorted(kinds))

    # ---------------------------------------------------------------------------------
    def minimise(self, plan, sig, max_exec=40):
        execs = [0]

        def attempt(p):
            if execs[0] >= max_exec:
                return False
            execs[0] += 1
            res = in_child(self.run_one, (p['run_seed'], p), timeout=300)
            return isinstance(res, dict) and any(
                x['sig'] == sig for x in res.get('violations') or ())
        best = json.loads(json.dumps(plan))
        if not attempt(best):
            best['note'] = 'replay did not reproduce in a fresh child'
            return best
        # fewer programs
        while best.get('iterations', 0) > 1:
            cand = json.loads(json.dumps(best))
            cand['iterations'] -= 1
            if attempt(cand):
                best = cand
            else:
                break
        # simpler switches
        for key, val in (('keep_all', False), ('P', False), ('t', 0), ('batch', 1),
                         ('mode', 'seq'), ('generator', 'stub')):
            if best.get(key) != val:
                cand = json.loads(json.dumps(best))
                cand[key] = val
                if attempt(cand):
                    best = cand
        # drop per-program and per-batch faults one at a time
        for pid in sorted(best['programs'], key=int):
            for key, val in (('genfail', None), ('correct_errors', 0), ('incorrect_errors', 1)):
                if best['programs'][pid].get(key) not in (val, None):
                    cand = json.loads(json.dumps(best))
                    if val is None:
                        cand['programs'][pid].pop(key, None)
                    else:
                        cand['programs'][pid][key] = val
                    if attempt(cand):
                        best = cand
        for k in sorted(best['batches'], key=int):
            b = best['batches'][k]
            for key in ('crash', 'noise', 'interleave'):
                if b.get(key):
                    cand = json.loads(json.dumps(best))
                    cand['batches'][k].pop(key, None)
                    if attempt(cand):
                        best = cand
        n = best.get('iterations') or 24
        best['programs'] = {k: x for k, x in best['programs'].items() if int(k) <= n}
        best['batches'] = {k: x for k, x in best['batches'].items() if int(k) <= n}
        best['minimise_execs'] = execs[0]
        return best


def plan_digest(plan):
    import hashlib
    return hashlib.sha1(json.dumps(plan, sort_keys=True).encode()).hexdigest()[:16]


CHECK = C15()
