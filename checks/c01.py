"""C01 -- generated programs are well-typed (the pass oracle)."""
from checks.c05 import RefCheck


class C01(RefCheck):
    ID = 'C01'
    PROP = 'C01'
    RULE = ('one evaluation = one program returned by Generator.generate() in a simulated run '
            '(choice tape, buggify, swarm of languages / switches / depth 1-7), judged by an '
            'independent reference type checker on structural snapshots: every initialiser, '
            'call / constructor / super-constructor argument, default value, function and lambda '
            'result, conditional branch (against the type the context expects), assignment and '
            'array element must be assignable to the type expected there; every explicit type '
            'argument at every type occurrence must satisfy the substituted bound; regular '
            'classes implement inherited abstract members, overrides keep the arity and do not '
            'override final methods, no class inherits from a final class; distinct non-trivial '
            '= distinct tape digests of finished programs')
    ASSUMPTIONS = ['the checker is liberal where the four target languages differ or the IR is '
                   'silent (numeric constants in Java/Groovy, SAM coercion, projections read '
                   'through their bound, undetermined receivers): such sites are counted, not '
                   'judged',
                   'for Java the real javac judges the same property on emitted text (C02)']
    PROBES = ('has_Lambda', 'has_FunctionReference', 'has_nested_function', 'has_ref_call',
              'has_named_argument', 'has_vararg', 'has_Is', 'sam_coercion',
              'cond_recorded_not_upper_bound')
    tiers = {'quick': {'runs': 700, 'wall_s': 70, 'run_timeout_s': 200},
             'thorough': {'runs': 12000, 'wall_s': 1100, 'run_timeout_s': 900}}


CHECK = C01()
