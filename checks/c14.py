"""C14 -- compiler diagnostics are attributed to the right programs."""
import os
import random as _pyrandom
import re
import shutil
import subprocess

from sim import boot, simcompiler
from sim.core import Sim, SimAbort, h64, apply_config

LANGS = ('java', 'kotlin', 'groovy', 'scala')
FILES = {'java': ('Main.java', 'Incorrect.java'), 'kotlin': ('program.kt', 'incorrect.kt'),
         'groovy': ('Main.groovy', 'incorrect.groovy'), 'scala': ('program.scala', 'incorrect.scala')}
ALPHA = 'abcdefghijklmnopqrstuvwxyz0123456789_'
BATCHES_PER_RUN = 150


def compilers():
    from src.compilers.kotlin import KotlinCompiler
    from src.compilers.groovy import GroovyCompiler
    from src.compilers.java import JavaCompiler
    from src.compilers.scala import ScalaCompiler
    return {'kotlin': KotlinCompiler, 'groovy': GroovyCompiler, 'java': JavaCompiler,
            'scala': ScalaCompiler}


def make_batch(r, words):
    lang = r.choice(LANGS)
    tmp = '/tmp/tmp' + ''.join(r.choice(ALPHA) for _ in range(8))
    n = r.choice([1, 1, 2, 3, 4, 6, 10])
    files = []
    for _ in range(n):
        for fn in FILES[lang]:
            if fn == FILES[lang][0] or r.random() < 0.7:
                files.append('%s/src/%s/%s' % (tmp, r.choice(words), fn))
    truth = {}
    for f in files:
        k = r.choice([0, 0, 0, 1, 1, 2, 4])
        truth[f] = [simcompiler.make_message(lang, r) for _ in range(k)]
    b = {'lang': lang, 'dir': tmp, 'truth': truth,
         'noise': r.choice([0, 0, 0.3, 0.9]), 'interleave': r.random() < 0.5,
         'crash': None, 'filter': None, 'seed': r.getrandbits(48)}
    x = r.random()
    if x < 0.12:
        b['crash'] = 'so' if (lang == 'groovy' and r.random() < 0.4) else 'trace'
        if b['crash'] == 'trace':
            b['crash_pos'] = r.choice([None, None, 'after', 'after', 'before', 'middle'])
    elif x < 0.3 and lang in ('java', 'kotlin'):
        msgs = [m for ms in truth.values() for m in ms]
        if msgs:
            # 1-3 user patterns, each matching whole diagnostic lines (re.sub removes only
            # what the pattern matches); the order is the user's
            pats = []
            for _ in range(r.choice([1, 1, 2, 3])):
                frag = r.choice(msgs).split(':')[0].split('(')[0][:24]
                pat = r'[^\n]*' + re.escape(frag) + r'[^\n]*\n'
                if pat not in pats:
                    pats.append(pat)
            b['filter'] = pats
    return b


def judge_batch(b, text, C):
    """-> list of (rule, shape, detail)"""
    lang = b['lang']
    comp = C[lang](os.path.join(b['dir'], 'src'), list(b['filter']) if b['filter'] else None)
    failed, _ = comp.analyze_compiler_output(text)
    out = []
    if b['crash']:
        if not comp.crash_msg:
            out.append(('crash-not-detected', '%s|%s%s' % (
                lang, b['crash'], '|with-diagnostics' if b.get('crash_pos') else ''),
                        'output with a compiler-internal stack trace was not classified as a '
                        'crash (%s)' % lang))
        elif failed:
            out.append(('crash-with-diagnostics', lang, 'crash output also yielded diagnostics'))
        return out
    if comp.crash_msg:
        out.append(('false-crash', lang, 'plain diagnostics were classified as a crash: %r' %
                    text[:200]))
        return out
    want = {}
    for f, msgs in b['truth'].items():
        keep = [m for m in msgs
                if not any(re.search(pt, _diag_line(lang, f, m)) for pt in (b['filter'] or ()))]
        if keep:
            want[f] = keep
    got = {f: list(ms) for f, ms in (failed or {}).items()}
    for f in sorted(set(want) - set(got)):
        out.append(('error-dropped', '%s|%s' % (lang, 'filtered' if b['filter'] else 'plain'),
                    '%s has %d scripted error(s) but is not in the analysis result (noise=%s, '
                    'interleave=%s, files=%d)' % (f, len(want[f]), b['noise'], b['interleave'],
                                                  len(b['truth']))))
    for f in sorted(set(got) - set(want)):
        kind = 'known-file' if f in b['truth'] else 'foreign-path'
        out.append(('spurious-file', '%s|%s' % (lang, kind),
                    '%r is reported with %r but no error was scripted for it' % (f, got[f][:1])))
    for f in sorted(set(got) & set(want)):
        if len(got[f]) != len(want[f]):
            out.append(('message-count', lang, '%s: %d messages returned, %d scripted' % (
                f, len(got[f]), len(want[f]))))
            continue
        for g, w in zip(got[f], want[f]):
            first = w.split('\n')[0].replace('-', ' ')
            if first not in g.replace('-', ' '):
                out.append(('message-moved', lang, '%s: returned %r does not contain scripted '
                            '%r' % (f, g[:100], first)))
                break
    return out


def _diag_line(lang, f, m):
    if lang == 'java':
        return '%s:1: error: %s\n' % (f, m)
    return '%s:1:1: error: %s\n' % (f, m)


class C14:
    ID = 'C14'
    LEVEL = 'exploration'
    RULE = ('one evaluation = one compiler output for one batch: a scripted peer decides a '
            'ground-truth map file -> [error messages] for 1-20 files with paths of the shape '
            'the tool generates (mkdtemp alphabet, src/<word>/<file name of the language>), '
            'prints it in the format of javac / kotlinc / groovyc / scalac with seeded noise '
            '(warnings, notes, summaries, quoted source lines, carets), diagnostic order, '
            'interleaving of files, user filter patterns and compiler-internal stack traces; '
            'the real analyze_compiler_output must return exactly the ground truth; for Java a '
            'share of the runs feeds output of the REAL javac (programs with injected type '
            'errors, driver layout) against a line-anchored reading of the same output; distinct '
            'non-trivial = distinct (language, output text) with >= 1 diagnostic or a crash')
    ASSUMPTIONS = ['fidelity of the scripted peer to kotlinc/groovyc/scalac output rests on the '
                   'templates in sim/simcompiler.py (those compilers are not installed)',
                   'user filter patterns are written to match whole diagnostic lines',
                   'message text: the returned message must contain the first line of the '
                   'scripted message (the four regexes capture different spans)']
    COMPONENTS = {'real': ['src/compilers/* (regexes, analyze_compiler_output)', 'javac 17 in the '
                           'real-javac leg', 'generator + TypeOverwriting + JavaTranslator in the '
                           'real-javac leg'],
                  'simulated': ['compiler output (scripted peer)', 'PRNG'],
                  'stub': ['kotlinc, groovyc, scalac (absent from the image)']}
    PROBES = ('java', 'kotlin', 'groovy', 'scala', 'crash', 'crash_so', 'crash_amid_diagnostics',
              'filter',
              'several_filters', 'noise',
              'interleave', 'many_errors_one_file', 'real_javac_batch', 'real_javac_errors')
    tiers = {'quick': {'runs': 260, 'wall_s': 100, 'run_timeout_s': 300},
             'thorough': {'runs': 6000, 'wall_s': 1100, 'run_timeout_s': 600}}

    def run_one(self, run_seed, plan=None):
        from src import utils
        C = compilers()
        r = _pyrandom.Random(h64(run_seed, 'c14'))
        words = ['pkg', 'a', 'foo_bar', 'x9', 'Quark', 'zeta', 'm_1', 'tmp', 'java', 'error']
        v = []
        probes = {}
        faults = {}
        feats = []
        sample = None
        n = 0
        if plan and plan.get('batch'):
            batches = [plan['batch']]
        else:
            batches = [make_batch(r, words) for _ in range(BATCHES_PER_RUN)]
        for b in batches:
            rr = _pyrandom.Random(b['seed'])
            order = list(b['truth'].items())
            rr.shuffle(order)
            text = simcompiler.render(b['lang'], order, rr, noise=b['noise'], crash=b['crash'],
                                      interleave=b['interleave'], crash_pos=b.get('crash_pos'))
            n += 1
            probes[b['lang']] = probes.get(b['lang'], 0) + 1
            for key, flag in (('crash', b['crash']), ('crash_so', b['crash'] == 'so'),
                              ('crash_amid_diagnostics', b.get('crash_pos')),
                              ('filter', b['filter']),
                              ('several_filters', b['filter'] and len(b['filter']) > 1),
                              ('noise', b['noise']),
                              ('interleave', b['interleave']),
                              ('many_errors_one_file', any(len(m) >= 3 for m in b['truth'].values()))):
                if flag:
                    probes[key] = probes.get(key, 0) + 1
            for k2, f2 in (('D3_stack_trace', b['crash']), ('D5_noise', b['noise']),
                           ('D6_interleave', b['interleave']), ('D7_filter', b['filter'])):
                if f2:
                    faults[k2] = faults.get(k2, 0) + 1
            faults['D1_D2_scripted_error_files'] = faults.get('D1_D2_scripted_error_files', 0) + \
                sum(1 for m in b['truth'].values() if m)
            if b['crash'] or any(b['truth'].values()):
                feats.append('%s%08x' % (b['lang'][0], hash(text) & 0xffffffff))
            for rule, shape, detail in judge_batch(b, text, C):
                sig = '%s|%s' % (rule, shape)
                if not any(x['sig'] == sig for x in v):
                    v.append({'rule': rule, 'sig': sig, 'detail': detail,
                              'plan': {'run_seed': run_seed, 'batch': b}})
            if sample is None and len(b['truth']) >= 2 and any(b['truth'].values()):
                sample = {'language': b['lang'], 'files': len(b['truth']),
                          'errors': sum(len(m) for m in b['truth'].values()),
                          'noise': b['noise'], 'interleave': b['interleave'],
                          'filter': b['filter'], 'output_head': text[:600]}
        # real javac leg
        if not (plan and plan.get('batch')) and r.random() < 0.12 and shutil.which('javac'):
            rv, rp, nb = self.real_javac(run_seed, C)
            v.extend(rv)
            for k, x in rp.items():
                probes[k] = probes.get(k, 0) + x
            n += nb
        plan_out = v[0].get('plan') if v else None
        for x in v:
            x.pop('plan', None)
        return {'status': 'ok', 'violations': v[:3], 'plan': plan_out, 'digest': '%x' % (
            hash(tuple(feats)) & 0xffffffffffff), 'feature': '', 'feats': feats, 'nb': n,
            'probes': probes, 'faults': faults,
            'obligations': {'batches_analysed': n}, 'sim_ms': 0, 'sample': sample}

    # -- real javac ------------------------------------------------------------------
    def real_javac(self, run_seed, C):
        """A batch of small generated Java programs with injected type errors, laid out as
        the driver lays them out, compiled by the real javac exactly as JavaCompiler builds the
        command; ground truth = line-anchored reading of the same output."""
        from src import utils
        from src.generators.generator import Generator
        from src.transformations.type_overwriting import TypeOverwriting
        from src.translators.java import JavaTranslator
        sim = Sim(run_seed, buggify=False, budget=3_000_000, language='java')
        sim.install('java')
        apply_config({'max_depth': 2})
        root = os.path.join(boot.scratch_root(), 'c14j%dx%x' % (os.getpid(), run_seed & 0xffffff))
        shutil.rmtree(root, ignore_errors=True)
        v = []
        probes = {}
        try:
            src = os.path.join(root, 'tmpjavac01', 'src')
            r = _pyrandom.Random(h64(run_seed, 'rj'))
            for i in range(r.randint(2, 4)):
                try:
                    p = Generator(language='java').generate()
                    pk = 'p%d' % i
                    tr = JavaTranslator('src.' + pk, {})
                    os.makedirs(os.path.join(src, pk))
                    utils.save_text(os.path.join(src, pk, 'Main.java'),
                                    utils.translate_program(tr, p))
                    to = TypeOverwriting(p, 'java', None, {})
                    to.transform()
                    if to.is_transformed:
                        pk2 = 'q%d' % i
                        tr.package = 'src.' + pk2
                        os.makedirs(os.path.join(src, pk2))
                        utils.save_text(os.path.join(src, pk2, 'Main.java'),
                                        utils.translate_program(tr, p))
                except SimAbort:
                    raise
                except Exception:   # noqa  (generator failures are C18's business)
                    continue
            comp = C['java'](src)
            cmd = ' '.join(comp.get_compiler_cmd())
            pr = subprocess.run(cmd, shell=True, stdout=subprocess.PIPE, stderr=subprocess.STDOUT,
                                timeout=240)
            text = pr.stdout.decode('utf-8', 'replace')
            probes['real_javac_batch'] = 1
            truth = {}
            for line in text.split('\n'):
                m = re.match(r'^(\S+\.java):(\d+): error: (.*)$', line)
                if m:
                    truth.setdefault(m.group(1), []).append(m.group(3))
            failed, _ = comp.analyze_compiler_output(text)
            if comp.crash_msg:
                if 'at jdk.compiler' not in text and 'at com.sun.tools' not in text:
                    v.append({'rule': 'false-crash', 'sig': 'false-crash|real-javac',
                              'detail': 'real javac diagnostics classified as a crash: %r' %
                                        text[:300], 'plan': {'run_seed': run_seed}})
            else:
                got = {f: list(ms) for f, ms in (failed or {}).items()}
                if truth:
                    probes['real_javac_errors'] = 1
                if set(got) != set(truth):
                    v.append({'rule': 'real-javac-files', 'sig': 'real-javac|file-set',
                              'detail': 'analysis returned %s, javac printed errors for %s' % (
                                  sorted(got), sorted(truth)), 'plan': {'run_seed': run_seed}})
                else:
                    for f in got:
                        if len(got[f]) != len(truth[f]):
                            v.append({'rule': 'real-javac-count', 'sig': 'real-javac|count',
                                      'detail': '%s: %d vs %d error lines' % (
                                          f, len(got[f]), len(truth[f])),
                                      'plan': {'run_seed': run_seed}})
                            break
        finally:
            shutil.rmtree(root, ignore_errors=True)
        return v, probes, 1

    def collect(self, agg, res):
        d = agg.setdefault('c14', {'n': 0, 'feats': set()})
        d['n'] += res.get('nb', 0)
        d['feats'].update(res.get('feats') or ())

    def extra_evidence(self, agg):
        d = agg.get('c14') or {'n': 0, 'feats': set()}
        return {'evaluations': d['n'], 'distinct_nontrivial': len(d['feats']),
                'templates': simcompiler.TEMPLATES}


CHECK = C14()
