"""C02 -- Java translations of valid programs compile with javac (real javac peer)."""
import os
import random as _pyrandom
import re
import shutil
import subprocess

from sim import boot, core, pipeline
from sim.core import Sim, SimAbort, SimBudget, h64, apply_config
from sim.pcheck import PipelineCheck

ERR = re.compile(r'^(\S+\.java):(\d+): error: (.*)$')


def normalise(msg):
    m = re.sub(r'"[^"]*"', 'S', msg)
    m = re.sub(r'\b[A-Z][A-Za-z0-9_]*(<[^ ]*>)?', 'T', m)
    m = re.sub(r'\b(int|long|short|byte|float|double|char|boolean)\b', 'p', m)
    m = re.sub(r'\b[a-z_][a-z0-9_]*\d+\b', 'x', m)
    m = re.sub(r'T(<[^ ]*>)?(\[\])?', 'T', m)
    m = re.sub(r'(T,)+T', 'T', m)
    m = re.sub(r'\s+', ' ', m)
    return m.strip()[:90]


def family(msg):
    """family of a javac type error (for signatures)"""
    m = msg
    if 'inference variable' in m and 'incompatible' in m:
        return 'inference-variable-bounds'
    if 'invalid method reference' in m:
        return 'invalid-method-reference'
    if 'bad return type' in m:
        return 'bad-return-type-in-lambda'
    if m.startswith('incompatible types') and 'cannot be converted' in m:
        return 'cannot-be-converted'
    if m.startswith('type argument') and 'not within bounds' in m:
        return 'type-argument-not-within-bounds'
    if 'cannot be applied to given types' in m:
        return 'method-cannot-be-applied'
    if m.startswith('incompatible types'):
        return 'incompatible-types-other'
    return normalise(m)


def construct(line):
    s = line.strip()
    if re.search(r'new \w+<>\(', s):
        k = 'diamond-new'
    elif '->' in s:
        k = 'lambda'
    elif '::' in s:
        k = 'method-ref'
    elif re.search(r'new \w+<', s):
        k = 'explicit-new'
    elif s.startswith('return'):
        k = 'return'
    elif re.search(r'\bclass\b|\binterface\b', s):
        k = 'class-header'
    elif re.search(r'^\s*(public|static|final|abstract|default)?.*\(.*\)\s*\{?$', s) and '=' not in s:
        k = 'method-header'
    elif '=' in s:
        k = 'assignment-or-init'
    else:
        k = 'other'
    return k


def javac(cmd, cwd=None):
    env = dict(os.environ)
    env['JAVA_TOOL_OPTIONS'] = '-XX:TieredStopAtLevel=1 -XX:+UseSerialGC -Xshare:auto'
    env.pop('LD_PRELOAD', None)
    p = subprocess.run(cmd, shell=True, stdout=subprocess.PIPE, stderr=subprocess.STDOUT,
                       env=env, cwd=cwd, timeout=600)
    return p.returncode, p.stdout.decode('utf-8', 'replace')


def read_errors(text):
    """line-anchored reading of javac output: file -> [(line no, message, source line)]"""
    out = {}
    lines = text.split('\n')
    for i, ln in enumerate(lines):
        m = ERR.match(ln)
        if m:
            src = lines[i + 1] if i + 1 < len(lines) else ''
            out.setdefault(m.group(1), []).append((int(m.group(2)), m.group(3), src))
    return out


class C02(PipelineCheck):
    ID = 'C02'
    RULE = ('one evaluation = one Java program text (original or erased) handed to the REAL javac '
            '17: a simulated run generates a batch of 1-5 programs one after the other in one '
            'process (as the driver does) under the choice tape with buggify and the switch swarm, '
            'applies 0-2 erasure rounds, writes original and erased texts in the driver\'s layout '
            '(<tmp>/src/<package>/Main.java) and starts javac exactly as JavaCompiler builds the '
            'command, once for the whole batch and once per file that failed in the batch or '
            'belongs to a sampled fifth of the runs; distinct non-trivial = distinct program '
            'texts compiled')
    ASSUMPTIONS = ['javac 17 (the only compiler installed) is the judge',
                   'JAVA_TOOL_OPTIONS only selects a faster JIT tier and GC for the compiler JVM']
    PROBES = ('batch>=2', 'erased_text_differs', 'solo_compiled', 'rounds2', 'javac_error_seen')
    LANGS = ('java',)
    MAX_DEPTH = (1, 7)
    COMPONENTS = dict(PipelineCheck.COMPONENTS)
    COMPONENTS['real'] = COMPONENTS['real'] + ['javac 17 (external process)',
                                               'src/compilers/java.py command + analysis']
    tiers = {'quick': {'runs': 110, 'wall_s': 70, 'run_timeout_s': 600, 'workers': 12},
             'thorough': {'runs': 2500, 'wall_s': 1100, 'run_timeout_s': 900, 'workers': 12}}

    def make_config(self, run_seed):
        c = core.swarm_config(run_seed, langs=('java',), max_depth=self.MAX_DEPTH,
                              rounds=(0, 1, 1, 2))
        r = _pyrandom.Random(h64(run_seed, 'c02'))
        c['nprog'] = r.choice([1, 2, 3, 4, 5])
        c['solo_all'] = r.random() < 0.2
        c['only_cp'] = True
        return c

    def run_one(self, run_seed, plan=None):
        from src import utils
        from src.generators.generator import Generator
        from src.transformations.type_erasure import TypeErasure
        from src.translators.java import JavaTranslator
        from src.compilers.java import JavaCompiler
        if plan is None:
            plan = self.make_plan(run_seed)
        elif 'config' not in plan:
            p2 = self.make_plan(plan['run_seed'])
            p2.update(plan)
            plan = p2
        c = plan['config']
        sim = self.setup_sim(plan)
        apply_config(c)
        root = os.path.join(boot.scratch_root(), 'c02x%dx%x' % (os.getpid(), run_seed & 0xffffff))
        shutil.rmtree(root, ignore_errors=True)
        src = os.path.join(root, 'tmpc02', 'src')
        files = {}       # path -> (program index, 'original'|'erased')
        status = 'ok'
        v = []
        probes = {}
        obl = {'compiles-solo': 0, 'compiles-batch': 0, 'verdict-stable': 0, 'analysis-agrees': 0}
        texts = []
        try:
            try:
                for j in range(c['nprog']):
                    sim.event('program %d' % j)
                    utils.random.reset_word_pool()
                    try:
                        p = Generator(language='java').generate()
                        tr = JavaTranslator('src.o%d' % j, {'cast_numbers': bool(c.get('cast_numbers'))})
                        t0 = utils.translate_program(tr, p)
                        path = os.path.join(src, 'o%d' % j, 'Main.java')
                        os.makedirs(os.path.dirname(path))
                        utils.save_text(path, t0)
                        files[path] = (j, 'original')
                        texts.append(t0)
                        changed = False
                        for _ in range(c.get('rounds', 0)):
                            te = TypeErasure(p, 'java', None, {'timeout': c.get('timeout', 600)})
                            te.transform()
                            p = te.result()
                            changed = changed or te.is_transformed
                        if c.get('rounds', 0):
                            tr.package = 'src.e%d' % j
                            t1 = utils.translate_program(tr, p)
                            if t1 != t0:
                                probes['erased_text_differs'] = 1
                                path = os.path.join(src, 'e%d' % j, 'Main.java')
                                os.makedirs(os.path.dirname(path))
                                utils.save_text(path, t1)
                                files[path] = (j, 'erased')
                                texts.append(t1)
                    except SimAbort:
                        raise
                    except (Exception, RecursionError):   # noqa: C18's business
                        status = 'pipeline_error'
                        continue
            except SimBudget:
                status = 'budget'
            except core.ReplayDiverged:
                status = 'diverged'
                files = {}
            if files:
                comp = JavaCompiler(src)
                rc, text = javac(' '.join(comp.get_compiler_cmd()))
                obl['compiles-batch'] += len(files)
                batch_err = read_errors(text)
                if len(files) >= 2:
                    probes['batch>=2'] = 1
                if c.get('rounds', 0) >= 2:
                    probes['rounds2'] = 1
                # (c) the tool's own analysis of the same output
                failed, _ = comp.analyze_compiler_output(text)
                obl['analysis-agrees'] += 1
                if comp.crash_msg is None and set(failed or {}) != set(batch_err):
                    v.append({'rule': 'analysis-agrees', 'sig': 'analysis|file-set',
                              'detail': 'analyze_compiler_output returned %s, javac printed errors '
                                        'for %s' % (sorted(failed or {}), sorted(batch_err))})
                elif comp.crash_msg is not None and 'at jdk.compiler' not in text \
                        and 'at com.sun.tools' not in text:
                    v.append({'rule': 'analysis-agrees', 'sig': 'analysis|false-crash',
                              'detail': 'javac diagnostics classified as a crash: %r' % text[:300]})
                if 'at jdk.compiler/com.sun.tools.javac' in text and not batch_err:
                    # javac itself crashed: not the tool's fault, nothing to judge
                    status = 'javac_crash'
                else:
                    for path, (j, kind) in sorted(files.items()):
                        errs = batch_err.get(path, [])
                        solo_errs = None
                        if errs or c.get('solo_all'):
                            one = JavaCompiler(src)
                            one.input_name = path
                            rc1, text1 = javac(' '.join(one.get_compiler_cmd()))
                            solo_errs = read_errors(text1).get(path, [])
                            obl['compiles-solo'] += 1
                            obl['verdict-stable'] += 1
                            probes['solo_compiled'] = 1
                            if bool(solo_errs) != bool(errs):
                                v.append({'rule': 'verdict-stable', 'sig': 'batch-vs-solo|%s' % kind,
                                          'detail': '%s program %d: %d error(s) in the batch of %d '
                                                    'files, %d alone; first: %s' % (
                                                        kind, j, len(errs), len(files),
                                                        len(solo_errs),
                                                        (errs or solo_errs)[0][1][:120])})
                        if errs:
                            probes['javac_error_seen'] = 1
                            # an erased program is only judged if its original compiles
                            if kind == 'erased':
                                opath = os.path.join(src, 'o%d' % j, 'Main.java')
                                if batch_err.get(opath):
                                    continue
                            ln, msg, srcline = errs[0]
                            v.append({'rule': 'javac-accepts',
                                      'sig': 'javac|%s|%s|%s' % (
                                          kind, family(msg),
                                          'diamond-new' if construct(srcline) == 'diamond-new'
                                          else '-'),
                                      'detail': '%s program %d rejected by javac (%d errors); '
                                                'first: Main.java:%d: %s | %s' % (
                                                    kind, j, len(errs), ln, msg[:160],
                                                    srcline.strip()[:120]),
                                      # the emitted text itself, so that the finding stays
                                      # inspectable after later commits changed the tape
                                      'artifact': {'javac': ['%d: %s' % (e_[0], e_[1][:200])
                                                             for e_ in errs[:5]],
                                                   'source': open(path).read()[:150000]}})
        finally:
            shutil.rmtree(root, ignore_errors=True)
        seen = set()
        out = []
        for x in v:
            if x['sig'] not in seen:
                seen.add(x['sig'])
                out.append(x)
        rec = {
            'status': status, 'violations': out,
            'digest': sim.log_digest() + sim.rand.digest(),
            'faults': self.fault_counts(sim, plan),
            'sim_ms': (sim.now - 1_600_000_000.0) * 1000.0,
            'feature': '', 'texts': ['%08x' % pipeline.hash_text(t) for t in texts],
            'ntexts': len(files),
            'probes': probes, 'obligations': obl,
            'site_features': ['%s:%d:%d' % f for f in sim.rand.site_features()],
            'sample': {'config': c, 'files': [(k, j) for (j, k) in files.values()],
                       'ndraws': len(sim.rand.tape), 'status': status},
        }
        if out:
            p = dict(plan)
            p['tape'] = sim.rand.tape
            p['tape_mode'] = 'strict'
            rec['plan'] = p
        return rec

    def collect(self, agg, res):
        d = agg.setdefault('c02', {'n': 0, 'texts': set()})
        d['n'] += res.get('ntexts', 0)
        d['texts'].update(res.get('texts') or ())

    def extra_evidence(self, agg):
        d = agg.get('c02') or {'n': 0, 'texts': set()}
        return {'evaluations': d['n'], 'distinct_nontrivial': len(d['texts']),
                'simulated_runs': agg['runs']}


CHECK = C02()
