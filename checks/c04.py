"""C04 -- type overwriting injects exactly one real type error (the fail oracle)."""
import os
import re
import shutil

from sim import boot, pipeline, refrel, snap
from sim.core import SimAbort, SimRandom, h64
from sim.pcheck import PipelineCheck
from sim.snap import tsnap, tstr, shape
from checks.c06 import class_decls

LANGS4 = ('java', 'kotlin', 'groovy', 'scala')
MSG = re.compile(r'^(.*) expected but (.*) found in node (.*)$', re.S)


class OverwriteObserver(pipeline.Observer):
    def __init__(self, check, sim, config):
        self.check = check
        self.sim = sim
        self.c = config
        self.before = None
        self.texts_before = None
        self.result = None
        self.strs = {}

    def _texts(self, program):
        from src import utils
        T = pipeline.translators()
        out = {}
        with self.sim.rand.paused():
            for l in LANGS4:
                try:
                    out[l] = utils.translate_program(
                        T[l]('src.pkg', {'cast_numbers': bool(self.c.get('cast_numbers'))}),
                        program)
                except SimAbort:
                    raise
                except Exception as e:   # noqa
                    out[l] = 'EXC ' + type(e).__name__
        return out

    def before_transform(self, run, name, program, index):
        if name != 'TypeOverwriting':
            return
        self.before = snap.asnap(program)
        self.texts_before = self._texts(program)
        # str() of every type object that a declaration or call carries, keyed by identity
        from sim import walk
        self.keep = []
        for node, path, parents in walk.iter_nodes(program):
            for attr, t in walk.type_attrs(node):
                self.strs[id(t)] = str(t)
                self.keep.append(t)
                for a in getattr(t, 'type_args', None) or ():
                    self.strs[id(a)] = str(a)
                    self.keep.append(a)
        self.table = refrel.Table(program.bt_factory, class_decls(program))

    def after_transform(self, run, name, program, transformer, index):
        if name != 'TypeOverwriting':
            return
        after = snap.asnap(program)
        self.result = {
            'after': after,
            'diff': snap.adiff(self.before, after, limit=200),
            'is_transformed': bool(transformer.is_transformed),
            'error_injected': transformer.error_injected,
            'texts_after': self._texts(program),
            'program': program,
            'timer_fired': self.sim.fault_fired['P4'] + self.sim.fault_fired['timer_deadline'],
        }


def _unvar(s):
    while s is not None and s[0] == 'V' and s[3] is not None:
        s = s[3]
    return s


def numeric(s):
    return s is not None and s[0] == 'B' and s[1] in (
        'IntegerType', 'ShortType', 'LongType', 'ByteType', 'FloatType', 'DoubleType',
        'NumberType', 'BigDecimalType', 'BigIntegerType', 'CharType')


class C04(PipelineCheck):
    ID = 'C04'
    RULE = ('one evaluation = one TypeOverwriting application at the end of a simulated pipeline '
            'run (0-3 erasure rounds before it, four languages, swarm switches, buggify, early '
            'timer fires in either pass of visit_program); when an injection is reported the '
            'attribute-level diff of the program must be exactly one declared type (var_type + '
            'inferred_type of one variable, ret_type + inferred_type of one function, or one '
            'type argument of one New / FunctionCall), old and new type must be unrelated under '
            'the reference relation, the message must name old type, new type and node, the '
            'changed type must be visible in the text, and for Java the real javac must reject '
            'the text; when nothing is reported, program and translations (4 languages) must be '
            'unchanged; distinct non-trivial = distinct (tape digest) runs with an injection')
    ASSUMPTIONS = ['must-reject is judged by the real javac for Java; for the other languages '
                   'by text visibility and unrelatedness only (their compilers are not installed)',
                   'a replacement related to the old type only through boxing/widening of a '
                   'Java/Groovy primitive is a listed known finding']
    PROBES = ('fault_free_twin', 'injected', 'not_injected', 'variable_overwritten', 'return_overwritten',
              'type_argument_overwritten', 'after_erasure', 'javac_judged', 'timer_fired')
    ROUNDS = (0, 0, 1, 1, 2, 3)
    MAX_DEPTH = (1, 6)
    TRANSLATE = False
    tiers = {'quick': {'runs': 170, 'wall_s': 70, 'run_timeout_s': 300},
             'thorough': {'runs': 3500, 'wall_s': 1100, 'run_timeout_s': 900}}

    K = 6     # overwriting applications per generated (and erased) program

    def make_config(self, run_seed):
        c = super().make_config(run_seed)
        c['only_cp'] = True      # the overwriting is applied by judge(), K times, on copies
        return c

    def observer(self, sim, plan):
        return pipeline.Observer()

    def make_faults(self, run_seed, config):
        # every application of the mutation starts two timers (two passes of visit_program)
        import random as _r
        r = _r.Random(h64(run_seed, 'faults'))
        plan = {'timer': {}, 'clock': {}}
        ntimers = config.get('rounds', 0) + 2 * self.K
        for i in range(ntimers):
            if r.random() < 0.2:
                plan['timer'][str(i)] = r.choice([0, 1, 2, 5, 20, 100, 400, 2000])
        if r.random() < 0.15:
            plan['clock'][str(r.randint(1, 2 * ntimers))] = r.choice(
                [config.get('timeout', 600) + 1.0, -30.0, 1e6])
        return plan

    def judge(self, run, obs, sim, plan):
        import pickle
        from src.transformations.type_overwriting import TypeOverwriting
        v = {}
        probes = {}
        obl = {'single-edit': 0, 'unrelated': 0, 'message': 0, 'visible-in-text': 0,
               'javac-rejects': 0, 'unchanged-when-not-injected': 0, 'undetermined': 0}
        c = plan['config']
        ninj = 0
        self._accepted = 0
        if run.status != 'ok' or run.program is None:
            return [], {'probes': probes, 'obligations': obl, 'injected': 0}
        blob = pickle.dumps(run.program, protocol=4)
        sample = None
        brnd = sim.rand.bprng

        def prefer(site, choices):
            # scheduler bias (P2-style, every outcome legal): half of the time steer the
            # overwriting towards type arguments of constructor / generic-method calls, which
            # a uniform choice reaches in under 2 % of the injections
            if site[0] != 'type_overwriting.py' or brnd.random() < 0.5:
                return None
            idx = [i for i, ch in enumerate(choices)
                   if type(ch).__name__ == 'TypeConstructorInstantiationCallNode' or (
                       isinstance(ch, tuple) and len(ch) == 3 and isinstance(ch[1], list) and any(
                           type(x).__name__ == 'TypeConstructorInstantiationCallNode'
                           for x in ch[1]))]
            return brnd.choice(idx) if idx else None
        sim.rand.prefer = prefer
        for k in range(self.K):
            program = pickle.loads(blob)
            o = OverwriteObserver(self, sim, c)
            o.before_transform(run, 'TypeOverwriting', program, 0)
            pos0 = len(sim.rand.tape)
            fired0 = sim.fault_fired['P4'] + sim.fault_fired['timer_deadline']
            try:
                to = TypeOverwriting(program, c['language'], None,
                                     {'timeout': c.get('timeout', 600)})
                to.transform()
                program = to.result()
            except SimAbort:
                raise
            except Exception:   # noqa  (C18's business)
                continue
            o.after_transform(run, 'TypeOverwriting', program, to, 0)
            if sim.fault_fired['P4'] + sim.fault_fired['timer_deadline'] > fired0 and \
                    sim.rand.src is None:
                # the timer fired in this application: the same choices without the fault
                # must give the same outcome (the timeout path must not return stale or
                # partial results)
                self._fault_free_twin(sim, c, blob, pos0, to, o, v, obl, probes)
            ex = self.examine(run, o, sim, plan, v, probes, obl)
            ninj += ex.get('injected', 0)
            if sample is None and ex.get('sample') and ex.get('injected'):
                sample = ex['sample']
        sim.rand.prefer = None
        extra = {'probes': probes, 'obligations': obl, 'injected': ninj,
                 'accepted': self._accepted,
                 'faults': dict(self.fault_counts(sim, plan),
                                P2_directed_choice=sim.rand.prefer_fired),
                 'sample': sample or {'config': c, 'note': 'no injection in this run'}}
        return list(v.values()), extra

    def _fault_free_twin(self, sim, c, blob, pos0, to, o, v, obl, probes):
        import pickle
        from src.transformations.type_overwriting import TypeOverwriting
        seg = sim.rand.tape[pos0:]
        main = sim.rand
        saved_plan, saved_timers = sim.fault_plan, list(sim.timers)
        saved_now = sim.now
        twin = SimRandom(sim, main.ru, 1, tape=seg, strict=True, buggify=False)
        sim.rand = twin
        sim.fault_plan = {'timer': {}, 'clock': {}}
        sim.timers = []
        try:
            p2 = pickle.loads(blob)
            o2 = OverwriteObserver(self, sim, c)
            o2.before_transform(None, 'TypeOverwriting', p2, 0)
            try:
                t2 = TypeOverwriting(p2, c['language'], None, {'timeout': 10 ** 9})
                t2.transform()
                p2 = t2.result()
            except SimAbort:
                return
            except Exception:   # noqa
                return
            o2.after_transform(None, 'TypeOverwriting', p2, t2, 0)
        finally:
            sim.rand = main
            main.rebind()
            sim.fault_plan, sim.timers = saved_plan, saved_timers
            sim.now = saved_now
        obl['fault-free-equal'] = obl.get('fault-free-equal', 0) + 1
        probes['fault_free_twin'] = probes.get('fault_free_twin', 0) + 1
        a, b = o.result, o2.result
        same = (a['is_transformed'], a['error_injected']) == (b['is_transformed'],
                                                               b['error_injected']) and \
            a['texts_after'] == b['texts_after']
        if not same:
            sig = 'timer-fault-changes-result|overwriting'
            v.setdefault(sig, {
                'rule': 'timer-fault-changes-result', 'sig': sig,
                'detail': 'with the transformation timer fired during TypeOverwriting the '
                          'outcome (transformed=%s, %r) differs from the fault-free '
                          'application of the same choices (transformed=%s, %r) [lang=%s]' % (
                              a['is_transformed'], (a['error_injected'] or '')[:80],
                              b['is_transformed'], (b['error_injected'] or '')[:80],
                              c['language'])})

    def examine(self, run, obs, sim, plan, v, probes, obl):
        c = plan['config']
        lang = c['language']
        res = obs.result

        def add(rule, what, detail):
            sig = '%s|%s' % (rule, what)
            if sig not in v:
                v[sig] = {'rule': rule, 'sig': sig, 'detail': '%s [lang=%s rounds=%d]' % (
                    detail, lang, c.get('rounds', 0))}
        if res is None:
            return {'injected': 0}
        if res['timer_fired']:
            probes['timer_fired'] = 1
        if c.get('rounds', 0):
            probes['after_erasure'] = 1
        raw = [(p, o, n) for p, o, n in res['diff']
               if not re.search(r'/FunctionCall:type_parameters(\[\d+\])?(/|$)', p)]
        # a replaced type is one edit: cut every leaf path at the declared-type attribute
        # (or at the type-argument position of a New / FunctionCall) it lies in
        canon = {}
        companion = []
        for p, o, n in raw:
            m = re.match(r'^(.*?/(?:VariableDeclaration:(?:var_type|inferred_type)|'
                         r'FunctionDeclaration:(?:ret_type|inferred_type)))(?:/|$)', p)
            if not m:
                m = re.match(r'^(.*?/New:class_type/ParameterizedType:type_args\[\d+\])', p)
            if not m:
                m = re.match(r'^(.*?/FunctionCall:type_args\[\d+\])', p)
            if not m and o is True and n is False and re.search(
                    r'/(New:class_type/ParameterizedType|FunctionCall):_can_infer_type_args$', p):
                # the mutated call's type arguments are made explicit again: part of the
                # same single edit (checked below to sit on the mutated call)
                companion.append(p)
                continue
            cp = m.group(1) if m else p
            if cp not in canon:
                canon[cp] = (snap.sget(obs.before, cp), snap.sget(res['after'], cp)) if m \
                    else (o, n)
        diff = [(p, o, n) for p, (o, n) in canon.items()]
        if not res['is_transformed']:
            probes['not_injected'] = 1
            obl['unchanged-when-not-injected'] += 1
            if diff:
                add('changed-without-report', re.sub(r'\[\d+\]', '', diff[0][0]).split('/')[-1],
                    'no injection reported but the program changed at %s' % diff[0][0][-140:])
            for l in LANGS4:
                if res['texts_after'][l] != obs.texts_before[l]:
                    add('text-changed-without-report', l,
                        'no injection reported but the %s translation changed' % l)
            return {'injected': 0}
        probes['injected'] = 1
        # ---- (a) exactly one declared type -------------------------------------------
        obl['single-edit'] += 1
        groups = {}
        for p, o, n in diff:
            m = re.match(r'^(.*)/(VariableDeclaration:(?:var_type|inferred_type)|'
                         r'FunctionDeclaration:(?:ret_type|inferred_type))(/.*)?$', p)
            m2 = re.match(r'^(.*/(?:New:class_type|FunctionCall:type_args))(.*)$', p)
            if m and not m.group(3):
                groups.setdefault(('decl', m.group(1)), []).append((m.group(2), o, n))
            elif m2:
                groups.setdefault(('targ', m2.group(1)), []).append((m2.group(2), o, n))
            else:
                groups.setdefault(('other', re.sub(r'\[\d+\]', '', p)), []).append((p, o, n))
        kind = None
        old = new = None
        target_path = None
        others = [k for k in groups if k[0] == 'other']
        decls = [k for k in groups if k[0] == 'decl']
        targs = [k for k in groups if k[0] == 'targ']
        if not diff:
            add('no-edit-but-reported', 'none', 'an injection is reported (%r) but the program '
                'did not change' % res['error_injected'])
        elif len(decls) == 1 and not targs:
            k = decls[0]
            fields = dict((f, (o, n)) for f, o, n in groups[k])
            names = sorted(fields)
            if names == ['VariableDeclaration:inferred_type', 'VariableDeclaration:var_type'] \
                    or names == ['VariableDeclaration:inferred_type']:
                kind = 'variable'
            elif names == ['FunctionDeclaration:inferred_type', 'FunctionDeclaration:ret_type'] \
                    or names == ['FunctionDeclaration:inferred_type']:
                kind = 'return'
            else:
                add('edit-shape', 'decl|' + '+'.join(n_.split(':')[1] for n_ in names),
                    'one declaration changed in fields %s' % names)
            if kind:
                vals = set(repr(n) for f, (o, n) in fields.items())
                if len(vals) != 1:
                    add('edit-shape', 'decl|declared-and-recorded-differ',
                        'declared and recorded type of the overwritten declaration differ')
                target_path = k[1]
        elif len(targs) == 1 and not decls:
            kind = 'type-argument'
            target_path = targs[0][1]
            if len(groups[targs[0]]) != 1:
                # several leaf paths inside one type argument are still one position if they
                # share the type_args[i] prefix
                pref = set(re.match(r'^((?:/ParameterizedType:type_args)?\[\d+\])', s_[0]).group(1)
                           if re.match(r'^((?:/ParameterizedType:type_args)?\[\d+\])', s_[0])
                           else s_[0] for s_ in groups[targs[0]])
                if len(pref) != 1:
                    add('edit-shape', 'type-argument|several-positions',
                        'several type-argument positions changed: %s' % sorted(pref)[:4])
        for cp_ in companion:
            base = cp_.rsplit('/', 1)[0]
            if not any(k[1].startswith(base) or base.startswith(k[1].rsplit('/', 1)[0])
                       for k in targs):
                others.append(('other', re.sub(r'\[\d+\]', '', cp_)))
                groups[others[-1]] = [(cp_, True, False)]
        if others or len(decls) + len(targs) > 1:
            where = sorted(set([k[1].split('/')[-1] for k in others] +
                               [k[0] for k in decls + targs]))
            add('more-than-one-edit', '+'.join(where)[:80],
                'the injection changed %d places: %s' % (
                    len(groups), [k[1][-70:] for k in list(groups)[:4]]))
        if kind:
            probes[{'variable': 'variable_overwritten', 'return': 'return_overwritten',
                    'type-argument': 'type_argument_overwritten'}[kind]] = 1
        # ---- old / new type objects ------------------------------------------------------
        m = MSG.match(res['error_injected'] or '')
        obl['message'] += 1
        if not m:
            add('message-format', 'unparsable', 'message %r' % (res['error_injected'],))
        if kind and target_path is not None:
            parent, key, node = snap.resolve(res['program'], target_path)
            new_t = None
            hidden = False
            if kind == 'variable':
                new_t = node.var_type if node.var_type is not None else node.inferred_type
                hidden = node.var_type is None
            elif kind == 'return':
                new_t = node.ret_type if node.ret_type is not None else node.inferred_type
                hidden = node.ret_type is None
            else:
                # find the changed argument index
                sub = groups[targs[0]][0][0]
                mi = re.search(r'\[(\d+)\]', sub)
                i = int(mi.group(1)) if mi else 0
                if type(node).__name__ == 'ParameterizedType':
                    new_t = node.type_args[i]
                    hidden = bool(node.__dict__.get('_can_infer_type_args'))
                else:
                    new_t = node[i] if isinstance(node, list) else None
                    hidden = bool(getattr(parent, '_can_infer_type_args', False))
            if m and new_t is not None:
                if m.group(2) != str(new_t):
                    add('message-new-type', kind, 'message names %r as the new type, the program '
                        'carries %r' % (m.group(2)[:60], str(new_t)[:60]))
                # the replaced type object: the one among the input program's type objects
                # whose snapshot equals the before-snapshot at the changed position
                old_lab = None
                for p_, o_, n_ in diff:
                    if (kind == 'type-argument' and re.search(r'type_args\[\d+\]$', p_)) or \
                            (kind != 'type-argument' and p_.endswith(':inferred_type')):
                        old_lab = o_
                old_strs = set()
                if old_lab is not None:
                    memo = {}
                    for t_ in obs.keep:
                        if snap.asnap(t_, memo) == old_lab:
                            old_strs.add(obs.strs.get(id(t_)))
                if old_strs and m.group(1) not in old_strs:
                    add('message-old-type', kind, 'message names %r as the old type, but the '
                        'type that was replaced prints as %r' % (
                            m.group(1)[:60], sorted(x for x in old_strs if x)[0][:60]))
            # ---- (b) unrelated ---------------------------------------------------------------
            old_s = None
            for p, o, n in diff:
                pass
            # old type: from the before-snapshot via the same path
            if new_t is not None:
                new_s = tsnap(new_t)
                old_obj = self._old_type(obs, diff, kind)
                obl['unrelated'] += 1
                if old_obj is not None and old_obj[0] == 'W':
                    old_obj = refrel.upper(old_obj)      # a projection recorded as a type
                if old_obj is not None:
                    a = refrel.sub3(old_obj, new_s, obs.table)
                    b = refrel.sub3(new_s, old_obj, obs.table)
                    if a is None or b is None:
                        obl['undetermined'] += 1
                    rel = None
                    if a:
                        rel = 'new-is-supertype'
                    elif b:
                        rel = 'new-is-subtype'
                    elif numeric(_unvar(old_obj)) and numeric(new_s) and \
                            lang in ('java', 'groovy') and \
                            (_unvar(old_obj)[2] or new_s[2]):
                        rel = 'numeric-primitive-conversion'
                    if rel:
                        oo = _unvar(old_obj)
                        prim = '~primitive' if ((oo[0] == 'B' and oo[2]) or
                                                (new_s[0] == 'B' and new_s[2])) else ''
                        add('replacement-related', '%s|%s%s' % (
                            rel, 'top' if obs.table.is_top(new_s) else
                            {'P': 'generic-instantiation', 'C': 'class', 'B': 'builtin',
                             'V': 'tvar'}.get(new_s[0], new_s[0]), prim),
                            '%s overwritten: %s replaced by %s, which is related to it (%s)' % (
                                kind, tstr(old_obj), tstr(new_s), rel))
            # ---- injections that certainly cannot produce a type error --------------------------
            try:
                why = self._without_effect(res['program'], kind, node, parent, target_path,
                                           groups, targs)
            except Exception:   # noqa
                why = None
            obl['effect-possible'] = obl.get('effect-possible', 0) + 1
            if why:
                add('injection-without-effect', '%s|%s' % (kind, why),
                    'an injection is reported (%s) but nothing in the program constrains the '
                    'overwritten %s: %s' % ((res['error_injected'] or '')[:120], kind, why))
            # ---- visible in the text ---------------------------------------------------------
            obl['visible-in-text'] += 1
            same_text = [l for l in LANGS4 if res['texts_after'][l] == obs.texts_before[l]]
            if lang in same_text:
                on_call = kind == 'type-argument' and '/FunctionCall:type_args' in target_path
                add('injection-invisible', '%s|%s%s' % (
                    kind, 'inferable-type-args' if hidden else 'text-unchanged',
                    '|method-call-' + lang if on_call else ''),
                    'an injection is reported (%s) but the %s translation is byte-identical to '
                    'the one before (the overwritten %s is %s)' % (
                        (res['error_injected'] or '')[:100], lang, kind,
                        'hidden by can_infer_type_args / omitted type' if hidden else 'printed?'))
            else:
                # ---- (d') the reference checker (inference mode) must reject the program --
                try:
                    from sim import refcheck
                    ck0 = refcheck.Checker(res['program'], infer=True)
                    ck0.run()
                    nerr = sum(1 for x in ck0.viol if x['prop'] == 'C01')
                except RecursionError:
                    nerr = None
                if nerr is not None:
                    obl['refcheck-rejects'] = obl.get('refcheck-rejects', 0) + 1
                    if nerr == 0:
                        # the reference checker is liberal by construction (numeric constants,
                        # undetermined receivers ...): a single acceptance is a diagnostic;
                        # the RATE of acceptances is judged over the batch (finish())
                        oo = _unvar(self._old_type(obs, diff, kind) or ('?',))
                        nn = tsnap(new_t) if new_t is not None else ('?',)
                        if not (numeric(oo) and numeric(nn)):
                            probes['refcheck_accepts_injection'] = probes.get(
                                'refcheck_accepts_injection', 0) + 1
                            self._accepted = getattr(self, '_accepted', 0) + 1
            if lang == 'java' and shutil.which('javac') and not v and \
                    lang not in same_text and obl['javac-rejects'] < 2:
                # ---- (d) a correct type checker must reject: real javac --------------------
                obl['javac-rejects'] += 1
                probes['javac_judged'] = 1
                ok_before, _ = self._javac(obs.texts_before['java'], plan['run_seed'], 'b')
                if ok_before:
                    ok_after, out = self._javac(res['texts_after']['java'], plan['run_seed'], 'a')
                    if ok_after:
                        oo = _unvar(self._old_type(obs, diff, kind) or ('?',))
                        nn = tsnap(new_t) if new_t is not None else ('?',)
                        cls = 'numeric' if numeric(oo) and numeric(nn) else '%s-to-%s' % (
                            shape(oo, 1), shape(nn, 1))
                        add('accepted-by-javac', '%s|%s' % (kind, cls),
                            'javac accepts the program although an injection is reported: %s' % (
                                (res['error_injected'] or '')[:160]))
        return {'injected': 1,
                'sample': {'config': c, 'kind': kind, 'error_injected': res['error_injected'],
                           'diff_paths': [p[-90:] for p, _, _ in diff[:4]]}}

    @staticmethod
    def _without_effect(program, kind, node, parent, target_path, groups, targs):
        """shapes in which the overwritten annotation is certainly unconstrained"""
        from src.ir import ast, types as tp
        from sim import walk
        from checks.c03 import mentions

        def untyped_bottom(e):
            return isinstance(e, ast.BottomConstant) and e.t is None
        if kind == 'variable':
            if not untyped_bottom(node.expr):
                return None
            for n_, path, parents in walk.iter_nodes(program):
                if isinstance(n_, (ast.Variable, ast.Assignment)) and \
                        getattr(n_, 'name', None) == node.name:
                    return None
                if isinstance(n_, ast.FunctionCall) and n_.func == node.name:
                    return None
            return 'initialiser-is-an-untyped-null-and-the-variable-is-never-used'
        if kind != 'type-argument' or type(node).__name__ != 'ParameterizedType':
            return None
        new = parent
        if not isinstance(new, ast.New):
            return None
        sub = groups[targs[0]][0][0]
        mi = re.search(r'\[(\d+)\]', sub)
        i = int(mi.group(1)) if mi else 0
        decls = {d.name: d for d in program.context._context.get(('global',), {}).get(
            'decls', {}).values() if isinstance(d, ast.ClassDeclaration)}
        d = decls.get(node.name)
        if d is None or i >= len(d.type_parameters) or len(d.fields) != len(new.args):
            return None
        pname = d.type_parameters[i].name
        if d.type_parameters[i].bound is not None:
            return None           # the replacement may violate the parameter's own bound
        for f, a in zip(d.fields, new.args):
            if mentions(f.field_type, pname) and not untyped_bottom(a):
                return None
        for q in d.type_parameters:
            if q.name != pname and q.bound is not None and mentions(q.bound, pname):
                return None
        # no constructor argument constrains the parameter: is there an expected type?
        for n_, path, parents in walk.iter_nodes(program):
            if isinstance(n_, ast.FunctionCall) and n_.receiver is new:
                fm = None
                for fn in d.functions:
                    if fn.name == n_.func:
                        fm = fn
                if fm is not None and not mentions(fm.get_type(), pname) and not any(
                        mentions(p_.param_type, pname) for p_ in fm.params):
                    return 'receiver-of-a-call-that-does-not-mention-the-parameter'
                return None
            if isinstance(n_, ast.FieldAccess) and n_.expr is new:
                f = d.get_field(n_.field)
                if f is not None and not mentions(f.field_type, pname):
                    return 'receiver-of-a-field-access-that-does-not-mention-the-parameter'
                return None
        return None

    @staticmethod
    def _old_type(obs, diff, kind):
        """light snapshot of the replaced type, rebuilt from the labelled before-snapshot"""
        for p, o, n in diff:
            if kind in ('variable', 'return') and p.endswith(':inferred_type'):
                return labelled_to_tsnap(o)
            if kind == 'type-argument' and re.search(r'type_args\[\d+\]$', p):
                return labelled_to_tsnap(o)
        return None

    def _javac(self, text, run_seed, tag):
        root = os.path.join(boot.scratch_root(), 'c04x%dx%x%s' % (os.getpid(), run_seed & 0xffffff, tag))
        shutil.rmtree(root, ignore_errors=True)
        try:
            d = os.path.join(root, 'src', 'pkg')
            os.makedirs(d)
            with open(os.path.join(d, 'Main.java'), 'w') as f:
                f.write(text)
            from checks.c02 import javac, read_errors
            rc, out = javac('javac -nowarn ' + os.path.join(root, 'src', '*', '*.java'))
            return not read_errors(out) and rc == 0, out
        finally:
            shutil.rmtree(root, ignore_errors=True)

    def collect(self, agg, res):
        d = agg.setdefault('c04', {'inj': 0, 'acc': 0})
        d['inj'] += res.get('injected', 0)
        d['acc'] += res.get('accepted', 0)

    def finish(self, agg):
        d = agg.get('c04') or {'inj': 0, 'acc': 0}
        if d['inj'] >= 100 and d['acc'] > 0.12 * d['inj']:
            return [{'rule': 'must-reject-rate', 'sig': 'must-reject-rate|reference-checker',
                     'detail': 'the reference type checker (inference mode) finds no error in %d '
                               'of %d programs in which an injection is reported (non-numeric '
                               'replacements; the unchanged tree stays below 2 %%)' % (
                                   d['acc'], d['inj'])}]
        return []

    def extra_evidence(self, agg):
        d = agg.get('c04') or {}
        return {'injections_examined': d.get('inj', 0),
                'injections_accepted_by_reference_checker_non_numeric': d.get('acc', 0)}

    def feature(self, run, sim, plan):
        if run.status != 'ok':
            return ''
        return sim.rand.digest()


def labelled_to_tsnap(o, depth=0):
    """labelled snapshot (sim/snap.asnap) of a type -> light snapshot"""
    if o is None or depth > 30:
        return None
    if not (isinstance(o, tuple) and len(o) == 2 and isinstance(o[0], str)):
        return None
    cls, fields = o
    if not isinstance(fields, tuple):
        return None
    f = dict(x for x in fields if isinstance(x, tuple) and len(x) == 2)

    def lst(x):
        return x[1] if isinstance(x, tuple) and len(x) == 2 and x[0] == 'L' else ()
    if cls == 'WildCardType':
        var = f.get('variance')
        return ('W', var[1] if isinstance(var, tuple) else 0,
                labelled_to_tsnap(f.get('bound'), depth + 1))
    if cls == 'TypeParameter':
        var = f.get('variance')
        return ('V', f.get('name'), var[1] if isinstance(var, tuple) else 0,
                labelled_to_tsnap(f.get('bound'), depth + 1))
    if cls == 'ParameterizedType':
        tc = f.get('t_constructor')
        name = f.get('name')
        if isinstance(tc, tuple) and tc[0] == 'SpecializedArrayType':
            name = name + '#specialized'
        return ('P', name, tuple(labelled_to_tsnap(a, depth + 1) for a in lst(f.get('type_args'))))
    if cls == 'SimpleClassifier':
        return ('C', f.get('name'))
    if cls in ('NothingType',):
        return ('N',)
    if 'type_parameters' in f:
        return ('TC', f.get('name'))
    if 'name' in f:
        return ('B', cls, bool(f.get('primitive', False)))
    return None


CHECK = C04()
