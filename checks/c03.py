"""C03 -- type erasure only removes inferable type information."""
import re

from sim import pipeline, snap
from sim.core import SimAbort
from sim.pcheck import PipelineCheck

LANGS4 = ('java', 'kotlin', 'groovy', 'scala')


def classify(path, old, new):
    """-> (kind, node path) for a permitted edit, or (None, description)"""
    last = path.rsplit('/', 1)[-1]
    if last == 'VariableDeclaration:var_type' and new is None and old is not None:
        return 'var_type', path.rsplit('/', 1)[0]
    if last == 'FunctionDeclaration:ret_type' and new is None and old is not None:
        return 'ret_type', path.rsplit('/', 1)[0]
    if last.endswith(':_can_infer_type_args') and old is False and new is True:
        return 'type_args', path.rsplit('/', 1)[0]
    if re.search(r'/FunctionCall:type_parameters(\[\d+\])?(/|$)', path):
        return 'bookkeeping', path      # the analysis stores the callee's type parameters
    segs = re.sub(r'\[\d+\]', '', path).split('/')
    return None, '/'.join(s for s in segs[-2:])


def mentions(t, name, depth=0):
    """does the type (live object, attribute reads only) mention type variable `name`?"""
    from src.ir import types as tp
    if t is None or depth > 12:
        return False
    if isinstance(t, tp.TypeParameter):
        return t.name == name or mentions(t.bound, name, depth + 1)
    if isinstance(t, tp.WildCardType):
        return mentions(t.bound, name, depth + 1)
    if isinstance(t, tp.ParameterizedType):
        return any(mentions(a, name, depth + 1) for a in t.type_args)
    return False


def uninferable_type_args(program):
    """inference-mode obligation that is certain in Kotlin and Scala: the type arguments of
    `new C<..>(..)` may be omitted only if every type parameter of C either occurs in the
    type of a constructor parameter or can come from an expected type.  A constructor call
    used as the RECEIVER of a member access, initialising a variable whose own type is
    omitted, or being the expression body of a function whose return type is omitted, has no
    expected type.  Returns [(where, class, type parameter)]."""
    from src.ir import ast, types as tp
    from sim import walk
    decls = {d.name: d for d in program.context._context.get(('global',), {}).get(
        'decls', {}).values() if isinstance(d, ast.ClassDeclaration)}
    out = []

    def check(new, where):
        t = new.class_type
        if not isinstance(t, tp.ParameterizedType) or not t.__dict__.get('_can_infer_type_args'):
            return
        d = decls.get(t.name)
        if d is None or len(d.fields) != len(new.args):
            return
        names = [q.name for q in d.type_parameters]
        for p in d.type_parameters:
            if not any(mentions(f.field_type, p.name) for f in d.fields):
                dep = p.bound is not None and any(
                    mentions(p.bound, n) for n in names if n != p.name)
                out.append((where + ('|bounded-by-another-parameter' if dep
                                     else '|unconstrained'), d.name, p.name))
    # generic METHOD calls: the same obligation with the callee's parameter types in the role
    # of the constructor parameters.  The callee is looked up by name; every declaration of
    # that name with as many type parameters must agree (overrides do).
    funcs = {}
    for node, path, parents in walk.iter_nodes(program):
        if isinstance(node, ast.FunctionDeclaration) and node.type_parameters:
            funcs.setdefault(node.name, []).append(node)

    def check_call(call, where):
        if not isinstance(call, ast.FunctionCall) or not call.type_args or \
                not call.__dict__.get('_can_infer_type_args'):
            return
        cands = [f for f in funcs.get(call.func, ())
                 if len(f.type_parameters) == len(call.type_args)]
        if not cands:
            return
        for i in range(len(call.type_args)):
            free = True
            for f in cands:
                p = f.type_parameters[i]
                used = any(mentions(q.param_type, p.name) for q in f.params)
                dep = any(q is not p and q.bound is not None and mentions(q.bound, p.name)
                          for q in f.type_parameters) or (
                              p.bound is not None and any(
                                  mentions(p.bound, q.name) for q in f.type_parameters
                                  if q is not p))
                if used or dep:
                    free = False
            if free:
                out.append((where + '|generic-call|unconstrained', call.func,
                            cands[0].type_parameters[i].name))
    for node, path, parents in walk.iter_nodes(program):
        if isinstance(node, ast.FunctionCall) and isinstance(node.receiver, ast.FunctionCall):
            check_call(node.receiver, 'receiver-of-call')
        elif isinstance(node, ast.FieldAccess) and isinstance(node.expr, ast.FunctionCall):
            check_call(node.expr, 'receiver-of-field-access')
        elif isinstance(node, ast.VariableDeclaration) and node.var_type is None:
            check_call(node.expr, 'initialiser-of-untyped-variable')
        elif isinstance(node, ast.FunctionDeclaration) and node.ret_type is None:
            check_call(node.body, 'body-of-untyped-function')
    for node, path, parents in walk.iter_nodes(program):
        if isinstance(node, ast.FunctionCall) and isinstance(node.receiver, ast.New):
            check(node.receiver, 'receiver-of-call')
        elif isinstance(node, ast.FieldAccess) and isinstance(node.expr, ast.New):
            check(node.expr, 'receiver-of-field-access')
        elif isinstance(node, ast.VariableDeclaration) and node.var_type is None and \
                isinstance(node.expr, ast.New):
            check(node.expr, 'initialiser-of-untyped-variable')
        elif isinstance(node, ast.FunctionDeclaration) and node.ret_type is None and \
                isinstance(node.body, ast.New):
            # expression-bodied function whose declared return type is omitted (possibly by
            # an EARLIER erasure round): its body has no expected type either
            check(node.body, 'body-of-untyped-function')
    return out


class ErasureObserver(pipeline.Observer):
    def __init__(self, check, sim):
        self.check = check
        self.sim = sim
        self.rounds = []       # per erasure round: dict
        self._before = None

    def before_transform(self, run, name, program, index):
        if name == 'TypeErasure':
            self._before = snap.asnap(program)

    def after_transform(self, run, name, program, transformer, index):
        if name != 'TypeErasure':
            return
        after = snap.asnap(program)
        d = snap.adiff(self._before, after, limit=400)
        infer_v = []
        try:
            from sim import refcheck
            ck = refcheck.Checker(program, infer=True)
            ck.run()
            seen_ = set()
            for x in ck.viol:
                if x['prop'] == 'C01' and x['rule'] in ('assign', 'arg', 'ctor-arg', 'ret', 'init',
                                                        'branch', 'super-arg', 'array-elem'):
                    key_ = (x['rule'], x['extra'])
                    if key_ not in seen_:
                        seen_.add(key_)
                        infer_v.append(x)
            ninf = ck.stats.get('inferred_variable_types', 0)
        except RecursionError:
            ninf = 0
        self.rounds.append({'index': index, 'diff': d, 'infer_viol': infer_v, 'ninferred': ninf,
                            'uninferable': uninferable_type_args(program),
                            'is_transformed': bool(transformer.is_transformed),
                            'timer_fired': self.sim.fault_fired['P4'] + self.sim.fault_fired[
                                'timer_deadline'],
                            'digest': snap.digest(after)})
        self._before = None


class C03(PipelineCheck):
    ID = 'C03'
    RULE = ('one evaluation = one erasure round of a simulated pipeline run (1-3 rounds per run, '
            'four languages, swarm switches, buggify), with seeded early fires of the '
            'transformation timer (P4) and clock jumps (P5) during TypeErasure.transform(); the '
            'program is snapshotted attribute by attribute before and after and every leaf '
            'difference must be a removed var_type of a VariableDeclaration, a removed ret_type '
            'of a FunctionDeclaration or a can_infer_type_args flag set on a New type / '
            'FunctionCall; is_transformed must say exactly whether something was removed; a run '
            'in which the timer fired is re-executed from the same tape without the fault and '
            'must end in the same program; distinct non-trivial = distinct (tape digest, round) '
            'with at least one removed annotation')
    ASSUMPTIONS = ['FunctionCall.type_parameters (bookkeeping written by the dependency analysis) '
                   'is not a node, name, modifier or recorded type and is ignored',
                   'typability of the erased program under compiler inference is judged by the '
                   'real javac for Java (check C02, erased leg); the other three compilers are '
                   'not installed']
    PROBES = ('var_type_removed', 'ret_type_removed', 'type_args_hidden', 'round_without_change',
              'timer_fired_in_erasure', 'fault_free_rerun', 'rounds>=2')
    ROUNDS = (1, 1, 2, 3)
    # half of the runs target Kotlin: the inference obligation that is CERTAIN (no compiler can
    # infer an omitted type argument that nothing constrains) is judged for Kotlin only
    LANGS = ('kotlin', 'kotlin', 'kotlin', 'java', 'groovy', 'scala')
    MAX_DEPTH = (1, 6)
    TRANSLATE = True
    tiers = {'quick': {'runs': 600, 'wall_s': 70, 'run_timeout_s': 300},
             'thorough': {'runs': 4000, 'wall_s': 1100, 'run_timeout_s': 900}}

    def make_config(self, run_seed):
        c = super().make_config(run_seed)
        c['only_cp'] = True
        return c

    def observer(self, sim, plan):
        return ErasureObserver(self, sim)

    def judge(self, run, obs, sim, plan):
        v = {}
        probes = {}
        obl = {'permitted-edit': 0, 'is_transformed-flag': 0, 'fault-free-equal': 0}
        feats = []
        c = plan['config']
        lang = c['language']

        def add(rule, what, detail):
            sig = '%s|%s' % (rule, what)
            if sig not in v:
                v[sig] = {'rule': rule, 'sig': sig, 'detail': '%s [lang=%s]' % (detail, lang)}
        if len(obs.rounds) >= 2:
            probes['rounds>=2'] = 1
        for rd in obs.rounds:
            kinds = {}
            for path, old, new in rd['diff']:
                obl['permitted-edit'] += 1
                k, where = classify(path, old, new)
                if k is None:
                    add('illegal-edit', where,
                        'erasure round %d changed %s: %s -> %s' % (
                            rd['index'] + 1, path[-160:], str(old)[:80], str(new)[:80]))
                else:
                    kinds[k] = kinds.get(k, 0) + 1
            real = sum(n for k, n in kinds.items() if k != 'bookkeeping')
            for k, p in (('var_type', 'var_type_removed'), ('ret_type', 'ret_type_removed'),
                         ('type_args', 'type_args_hidden')):
                if kinds.get(k):
                    probes[p] = probes.get(p, 0) + 1
            obl['is_transformed-flag'] += 1
            # (a later round may report True although everything it would omit is already
            # omitted: the statement does not forbid that)
            if real > 0 and not rd['is_transformed']:
                add('is_transformed-flag', 'says-%s-edits-%s' % (rd['is_transformed'],
                                                                 'some' if real else 'none'),
                    'round %d: is_transformed=%s but %d annotations were removed' % (
                        rd['index'] + 1, rd['is_transformed'], real))
            obl['inference-certain'] = obl.get('inference-certain', 0) + 1
            if lang == 'kotlin':
                for where, cls, tpn in rd['uninferable'][:6]:
                    add('uninferable-type-argument', where,
                        'round %d: the type arguments of `%s %s<..>(..)` are omitted although '
                        'type parameter %s occurs in no %s parameter type and the call '
                        'is the %s (no expected type): no compiler can infer it' % (
                            rd['index'] + 1, 'call of' if 'generic-call' in where else 'new',
                            cls, tpn, 'function' if 'generic-call' in where else 'constructor',
                            where.split('|')[0].replace('-', ' ')))
            if rd['uninferable']:
                probes['uninferable_seen_any_language'] = 1
            obl['well-typed-under-inference'] = obl.get('well-typed-under-inference', 0) + \
                rd.get('ninferred', 0)
            for x in rd.get('infer_viol', ()):
                add('ill-typed-under-inference', '%s|%s' % (x['rule'], x['extra']),
                    'round %d: with every omitted variable type replaced by the type of its '
                    'initialiser the program is ill-typed: %s: %s at %s' % (
                        rd['index'] + 1, x['rule'], x['detail'], x['where']))
            if real:
                feats.append('%s-%d' % (sim.rand.digest(), rd['index']))
            else:
                probes['round_without_change'] = probes.get('round_without_change', 0) + 1
        # (c) a run in which the timer fired equals the fault-free run of the same tape
        fired = obs.rounds and obs.rounds[-1]['timer_fired'] and run.status == 'ok'
        if fired and not plan.get('_rerun'):
            probes['timer_fired_in_erasure'] = 1
            p2 = dict(plan)
            p2['faults'] = {'timer': {}, 'clock': {}}
            p2['tape'] = sim.rand.tape
            p2['tape_mode'] = 'strict'
            p2['_rerun'] = True
            sim2 = self.setup_sim(p2)
            obs2 = ErasureObserver(self, sim2)
            run2 = pipeline.PipelineRun(sim2, p2['config'], obs2, translate=True)
            run2.run()
            probes['fault_free_rerun'] = 1
            obl['fault-free-equal'] += 1
            if run2.status == 'ok':
                a = [(s, pipeline.hash_text(t)) for s, t in run.stages]
                b = [(s, pipeline.hash_text(t)) for s, t in run2.stages]
                da = [r['digest'] for r in obs.rounds]
                db = [r['digest'] for r in obs2.rounds]
                fa = [r['is_transformed'] for r in obs.rounds]
                fb = [r['is_transformed'] for r in obs2.rounds]
                if a != b or da != db or fa != fb:
                    add('timer-fault-changes-result', 'erasure',
                        'with the transformation timer fired early (plan %s) the run ends in a '
                        'different program / flags than the fault-free run of the same tape '
                        '(texts equal: %s, programs equal: %s, flags %s vs %s)' % (
                            plan.get('faults'), a == b, da == db, fa, fb))
            elif run2.status != 'ok':
                add('timer-fault-changes-result', 'fault-free-run-' + run2.status,
                    'the fault-free replay of the same tape ended %s' % run2.status)
        extra = {'probes': probes, 'obligations': obl, 'feats': feats, 'nrounds': len(obs.rounds),
                 'sample': {'config': c, 'faults': plan.get('faults'),
                            'rounds': [{'edits': len(r['diff']), 'is_transformed': r['is_transformed'],
                                        'first': [p[-80:] for p, _, _ in r['diff'][:3]]}
                                       for r in obs.rounds]}}
        return list(v.values()), extra

    def collect(self, agg, res):
        d = agg.setdefault('c03', {'n': 0, 'feats': set()})
        d['n'] += res.get('nrounds', 0)
        d['feats'].update(res.get('feats') or ())

    def extra_evidence(self, agg):
        d = agg.get('c03') or {'n': 0, 'feats': set()}
        return {'evaluations': d['n'], 'distinct_nontrivial': len(d['feats']),
                'simulated_runs': agg['runs']}


CHECK = C03()
