"""C13 -- saved programs replay faithfully (restart fault at every save point)."""
import json
import os
import random as _pyrandom
import shutil
import subprocess
import sys

from sim import boot, pipeline, snap
from sim.core import h64, SimAbort
from sim.pcheck import PipelineCheck

LANGS4 = ('java', 'kotlin', 'groovy', 'scala')


class SavePoints(pipeline.Observer):
    def __init__(self, sim, config, sandbox):
        self.sim = sim
        self.c = config
        self.sandbox = sandbox
        self.points = []
        self.later = []      # results of every mutation stage in the original process

    def _save(self, run, name, program):
        from src import utils
        T = pipeline.translators()
        opts = {'cast_numbers': bool(self.c.get('cast_numbers'))}
        path = os.path.join(self.sandbox, name + '.bin')
        utils.dump_program(path, program)      # the tool's own dump
        texts = {}
        with self.sim.rand.paused():
            for l in LANGS4:
                try:
                    texts[l] = utils.translate_program(T[l]('src.pkg', dict(opts)), program)
                except SimAbort:
                    raise
                except Exception as e:   # noqa
                    texts[l] = 'EXC ' + type(e).__name__
        self.points.append({
            'name': name, 'bin': path, 'texts': texts,
            'digest': snap.digest(snap.asnap(program)),
            'tape_pos': len(self.sim.rand.tape),
            'hash_counter': self.sim.peek_hash_counter(),
            'nlater': len(self.later),
        })

    def on_generated(self, run, program):
        self._save(run, 'generated', program)

    def after_transform(self, run, name, program, transformer, index):
        from src import utils
        T = pipeline.translators()
        tr = T[self.c['language']]('src.pkg', {'cast_numbers': bool(self.c.get('cast_numbers'))})
        with self.sim.rand.paused():
            text = utils.translate_program(tr, program)
        self.later.append({'kind': name, 'is_transformed': bool(transformer.is_transformed),
                           'error_injected': getattr(transformer, 'error_injected', None),
                           'text': text})
        n = 'erased%d' % (index + 1) if name == 'TypeErasure' else 'overwritten'
        self._save(run, n, program)


class C13(PipelineCheck):
    ID = 'C13'
    LEVEL = 'fault_enumeration'
    RULE = ('one evaluation = one simulated pipeline run in which the restart fault is taken at '
            'EVERY save point of the driver (generated, after each erasure round, after '
            'overwriting: 2 + rounds points, all enumerated): the program is written with the '
            'tool\'s dump_program, a fresh interpreter (exec; nothing but the file) loads it '
            'through the real --replay path, translates it to all four languages, dumps it '
            'again, answers the context reverse index, and applies the remaining mutations '
            'under the same tape continuation; a seeded third of the points is additionally '
            'loaded under another PYTHONHASHSEED (P7, translation equality only); seeds are '
            'sampled, crash points are enumerated; distinct non-trivial = distinct '
            '(tape digest, save point) pairs that were restarted')
    ASSUMPTIONS = ['byte equality of pickles is not demanded, structural digest equality is',
                   'under another PYTHONHASHSEED only translation equality is demanded '
                   '(candidate order in the mutations legitimately depends on string hashing)',
                   'timer faults are disabled in this check so that the continuation is '
                   'comparable stage by stage']
    PROBES = ('restart_generated', 'restart_erased', 'restart_overwritten', 'restart_other_hashseed',
              'continuation_transformed', 'continuation_injected')
    MAX_DEPTH = (1, 6)
    ROUNDS = (0, 1, 1, 2)
    TIMER_FAULT_RATE = 0.0
    TRANSLATE = False
    tiers = {'quick': {'runs': 130, 'wall_s': 110, 'run_timeout_s': 400},
             'thorough': {'runs': 2000, 'wall_s': 1100, 'run_timeout_s': 900}}

    def make_faults(self, run_seed, config):
        return {'timer': {}, 'clock': {}}

    def observer(self, sim, plan):
        d = os.path.join(boot.scratch_root(), 'c13-%d-%x' % (os.getpid(), plan['run_seed'] & 0xffffffff))
        shutil.rmtree(d, ignore_errors=True)
        os.makedirs(d)
        self._sandbox = d
        return SavePoints(sim, plan['config'], d)

    def _child(self, task, hashseed):
        tpath = task['bin'] + '.task.json'
        with open(tpath, 'w') as f:
            json.dump(task, f)
        env = dict(os.environ)
        env['PYTHONHASHSEED'] = str(hashseed)
        env['VERIF_REEXEC'] = '1'
        try:
            p = subprocess.run([sys.executable, '-m', 'sim.restart_child', tpath],
                               cwd=boot.VERIF, env=env, capture_output=True, text=True,
                               timeout=600)
        except subprocess.TimeoutExpired:
            return {'child_error': 'timeout'}
        try:
            return json.loads(p.stdout.strip().splitlines()[-1])
        except Exception:   # noqa
            return {'child_error': (p.stderr or p.stdout)[-1500:]}

    def judge(self, run, obs, sim, plan):
        c = plan['config']
        lang = c['language']
        v = []
        probes = {}
        obl = {'text-equal': 0, 'continuation-equal': 0, 'dump-stable': 0, 'reverse-index': 0}
        feats = []
        harness = []
        self._p6 = self._p7 = 0
        try:
            if run.status in ('ok', 'error') and obs.points:
                r = _pyrandom.Random(h64(plan['run_seed'], 'p7'))
                tape = sim.rand.tape
                for pt in obs.points:
                    st = pt['name'].rstrip('0123456789')
                    probes['restart_' + st] = 1
                    cont = [x['kind'] for x in obs.later[pt['nlater']:]]
                    task = {'run_seed': plan['run_seed'], 'config': c, 'bin': pt['bin'],
                            'tape': tape[pt['tape_pos']:], 'hash_counter': pt['hash_counter'],
                            'continue': cont}
                    res = self._child(task, 0)
                    self._p6 += 1
                    feats.append(pt['name'])
                    if 'child_error' in res:
                        harness.append(res['child_error'])
                        continue
                    self._compare(v, obl, probes, pt, res, obs, st, lang, True)
                    if r.random() < 0.34:
                        probes['restart_other_hashseed'] = 1
                        t2 = dict(task)
                        t2['continue'] = []
                        res2 = self._child(t2, r.randint(1, 4_000_000))
                        self._p7 += 1
                        if 'child_error' in res2:
                            harness.append(res2['child_error'])
                        else:
                            self._compare(v, obl, probes, pt, res2, obs, st + '/hashseed', lang,
                                          False)
        finally:
            shutil.rmtree(self._sandbox, ignore_errors=True)
        if harness:
            raise RuntimeError('restart child failed: ' + harness[0])
        seen = set()
        out = []
        for x in v:
            if x['sig'] not in seen:
                seen.add(x['sig'])
                out.append(x)
        extra = {'probes': probes, 'obligations': obl, 'points': feats,
                 'sample': {'config': c, 'save_points': feats, 'ndraws': len(sim.rand.tape),
                            'later_stages': [(x['kind'], x['is_transformed']) for x in obs.later]}}
        return out, extra

    def _compare(self, v, obl, probes, pt, res, obs, st, lang, cont):
        def add(rule, detail):
            v.append({'rule': rule, 'sig': '%s|%s' % (rule, st), 'detail': detail})
        for l in LANGS4:
            obl['text-equal'] += 1
            if res['texts'].get(l) != pt['texts'][l]:
                add('text-' + l, 'program saved at %s: loaded copy translates to different %s '
                    'text (first difference at offset %d)' % (
                        pt['name'], l, _first_diff(res['texts'].get(l, ''), pt['texts'][l])))
        obl['dump-stable'] += 1
        if res['digest'] != pt['digest']:
            add('digest', 'program saved at %s: structural digest of the loaded copy differs' %
                pt['name'])
        if res['digest_again'] != res['digest']:
            add('dump-again', 'program saved at %s: dump(load(dump(p))) differs structurally' %
                pt['name'])
        obl['reverse-index'] += 1
        if res['reverse_missing']:
            add('reverse-index', 'program saved at %s: %d of %d declarations have no namespace '
                'in the loaded context' % (pt['name'], res['reverse_missing'], res['ndecl']))
        if not cont:
            return
        want = obs.later[pt['nlater']:]
        got = res.get('stages') or []
        if res.get('errors') and len(got) < len(want):
            # the original process finished these stages; the restarted one did not
            if not any(e.startswith('sim:SimBudget') for e in res['errors']):
                add('continuation-failed', 'after restart at %s the remaining mutations failed: '
                    '%s' % (pt['name'], res['errors'][0][:300]))
            return
        for i, (w, g) in enumerate(zip(want, got)):
            obl['continuation-equal'] += 1
            if w['is_transformed']:
                probes['continuation_transformed'] = 1
            if w['error_injected']:
                probes['continuation_injected'] = 1
            if (w['is_transformed'], w['error_injected']) != (g['is_transformed'],
                                                              g['error_injected']):
                add('continuation-outcome', 'restart at %s, then %s #%d: original '
                    '(transformed=%s, error=%s) vs loaded (transformed=%s, error=%s)' % (
                        pt['name'], w['kind'], i, w['is_transformed'], w['error_injected'],
                        g['is_transformed'], g['error_injected']))
            elif w['text'] != g['text']:
                add('continuation-text', 'restart at %s, then %s #%d: same outcome flags but '
                    'different text (offset %d)' % (pt['name'], w['kind'], i,
                                                    _first_diff(w['text'], g['text'])))

    def collect(self, agg, res):
        d = agg.setdefault('c13', set())
        for p in res.get('points') or ():
            d.add((res.get('digest'), p))

    def extra_evidence(self, agg):
        return {'restarts_distinct': len(agg.get('c13') or ())}

    def fault_counts(self, sim, plan):
        f = super().fault_counts(sim, plan)
        f['P6_restart_fresh_interpreter'] = getattr(self, '_p6', 0)
        f['P7_restart_other_hashseed'] = getattr(self, '_p7', 0)
        return f

    def feature(self, run, sim, plan):
        if run.program is None:
            return ''
        return sim.rand.digest()


def _first_diff(a, b):
    for i, (x, y) in enumerate(zip(a, b)):
        if x != y:
            return i
    return min(len(a), len(b))


CHECK = C13()
