"""C07 -- instantiating a generic class substitutes everywhere and mutates nothing."""
from sim import monitors, refrel
from sim.snap import tsnap, deep, tstr
from checks.c06 import MonitorCheck, class_decls


class C07(MonitorCheck):
    ID = 'C07'
    MON = ('C07',)
    RULE = ('one evaluation = one top-level call of TypeConstructor.new, substitute_type, '
            'to_variance_free or to_type_variable_free made on the shared, aliased type objects '
            'of a simulated pipeline run (generation, erasure, overwriting, translation); for '
            'each call deep structural snapshots of receiver, arguments and map before and '
            'after must be equal, a seeded sample of earlier instantiations must be unchanged '
            '(ledger), and the result must equal an independent substitution on snapshots '
            '(supertypes transitively, for type-variable-free arguments); after the run every '
            'generic class of the finished program is instantiated once more with ground '
            'arguments and compared with the class table; distinct non-trivial = distinct '
            '(call kind, input snapshot) with a non-empty map / >= 1 argument')
    ASSUMPTIONS = ['a type variable in a substitution map is identified by name, variance and '
                   'bound (the IR\'s own equality)',
                   'supertype substitution is demanded only for type-variable-free arguments, '
                   'as the statement says']
    PROBES = ('new_calls', 'substitute_calls', 'ledger_checks', 'supertype_chain>=2',
              'postrun_instantiations', 'wildcard_in_map')
    tiers = {'quick': {'runs': 220, 'wall_s': 70, 'run_timeout_s': 200},
             'thorough': {'runs': 3500, 'wall_s': 1100, 'run_timeout_s': 900}}

    def judge(self, run, obs, sim, plan):
        rec = self.rec
        v = {x['sig']: x for x in rec.c07}
        probes = {'new_calls': rec.c07_calls['new'],
                  'substitute_calls': rec.c07_calls['substitute_type'],
                  'ledger_checks': rec.c07_calls['ledger_checks']}
        obl = dict(rec.c07_calls)
        npost = 0
        if run.program is not None and run.status in ('ok',):
            # post-run probe: every generic class of the finished program instantiated with
            # ground arguments through the real `new`, under the monitor
            from src.ir import types as tp
            f = run.program.bt_factory
            ground = [f.get_string_type(), f.get_integer_type(), f.get_double_type(),
                      f.get_boolean_type()]
            for d in class_decls(run.program):
                if not d.type_parameters:
                    continue
                tc = d.get_type()
                args = [ground[i % len(ground)] for i in range(len(d.type_parameters))]
                before = len(rec.c07)
                try:
                    res = tc.new(args)
                except Exception:   # noqa
                    continue
                npost += 1
                depth = 0
                t = res
                while t.supertypes and depth < 10:
                    nxt = [u for u in t.supertypes if isinstance(u, tp.ParameterizedType)]
                    if not nxt:
                        break
                    t = nxt[0]
                    depth += 1
                if depth >= 2:
                    probes['supertype_chain>=2'] = probes.get('supertype_chain>=2', 0) + 1
                # ground instantiation must leave no type variable anywhere up the hierarchy
                stack = [res]
                seen = 0
                while stack and seen < 50:
                    u = stack.pop()
                    seen += 1
                    if refrel.has_tvars(tsnap(u)):
                        sig = 'ground-new-keeps-type-variable|TypeConstructor.new'
                        v.setdefault(sig, {
                            'rule': 'ground-new-keeps-type-variable', 'sig': sig,
                            'detail': '%s.new(%s): supertype %s still mentions a type variable'
                                      % (d.name, ', '.join(map(str, args)), tstr(tsnap(u)))})
                        break
                    stack.extend(getattr(u, 'supertypes', ()) or ())
            for x in rec.c07:
                v.setdefault(x['sig'], x)
            # every constructor that new() was called on must still carry the class's
            # DECLARED supertypes (a constructor reached through the result of an earlier
            # substitution must not have kept the substituted ones)
            tb = refrel.Table(run.program.bt_factory, class_decls(run.program))
            for name, sups, caller in rec.receivers:
                ci = tb.classes.get(name)
                if ci is None or ci.builtin or len(ci.supers) != len(sups):
                    continue
                obl['receiver-is-definition'] = obl.get('receiver-is-definition', 0) + 1
                if [refrel.strip(x) for x in sups] != [refrel.strip(x) for x in ci.supers]:
                    sig = 'new-on-substituted-constructor|%s' % caller.split('<')[0]
                    v.setdefault(sig, {
                        'rule': 'new-on-substituted-constructor', 'sig': sig,
                        'detail': '%s.new(..) was called on a constructor whose supertypes are '
                                  '%s, the class declares %s (called from %s): the instantiation '
                                  'inherits supertypes of an earlier substitution' % (
                                      name, [tstr(x) for x in sups], [tstr(x) for x in ci.supers],
                                      caller)})
        monitors.Recorder.current = None
        probes['postrun_instantiations'] = npost
        obl['postrun_new'] = npost
        extra = {'probes': {k: n for k, n in probes.items() if n}, 'obligations': obl,
                 'ncalls': sum(rec.c07_calls.values()) + npost,
                 'sample': {'config': plan['config'], 'calls': dict(rec.c07_calls),
                            'postrun_instantiations': npost}}
        return list(v.values()), extra

    def collect(self, agg, res):
        d = agg.setdefault('c07', {'n': 0})
        d['n'] += res.get('ncalls', 0)

    def extra_evidence(self, agg):
        d = agg.get('c07') or {'n': 0}
        return {'evaluations': d['n'], 'simulated_runs': agg['runs']}

    def feature(self, run, sim, plan):
        if run.program is None:
            return ''
        return sim.rand.digest()


CHECK = C07()
