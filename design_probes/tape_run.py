import sys, os, json, time, random, itertools, hashlib, traceback
random.seed(0)
sys.path.insert(0,'/repo'); sys.path.insert(0,'/tmp/scratch/proto')
from src import utils
from src.ir import node as _n
from src.generators.generator import Generator
from src.generators.config import cfg
from src.transformations.type_erasure import TypeErasure
from src.transformations.type_overwriting import TypeOverwriting
from src.translators.java import JavaTranslator
from src.translators.kotlin import KotlinTranslator
from src.translators.groovy import GroovyTranslator
from src.translators.scala import ScalaTranslator
import simrandom
TR={'java':JavaTranslator,'kotlin':KotlinTranslator,'groovy':GroovyTranslator,'scala':ScalaTranslator}
ALLWORDS=utils.read_lines(os.path.join(utils.RandomUtils.resource_path,'words'))

def one_run(seed, tape=None, buggify=True):
    cfgr=random.Random(seed*7919+1)
    lang=cfgr.choice(['java','kotlin','groovy','scala'])
    cfg.limits.max_depth=cfgr.randint(2,7)
    cfg.dis.use_site_variance=cfgr.random()<0.3
    cfg.dis.use_site_contravariance=cfgr.random()<0.3
    if cfgr.random()<0.3: cfg.prob.bounded_type_parameters=0
    if cfgr.random()<0.3: cfg.prob.parameterized_functions=0
    rounds=cfgr.choice([0,1,1,2])
    c=itertools.count(1)
    _n.Node.__hash__=(lambda c: (lambda self: self.__dict__.get("_vh") or self.__dict__.setdefault("_vh", next(c))))(c)
    R=utils.random
    pool=set(random.Random(seed).sample(ALLWORDS, R.WORD_POOL_LEN))
    R.INITIAL_WORDS=pool; R.WORDS=set(pool)
    R.remove_reserved_words(lang)
    sr=simrandom.SimRandom(R, seed, tape=tape, buggify=buggify)
    R.reset_word_pool()
    texts=[]; err=None
    try:
        p=Generator(language=lang).generate()
        tr=TR[lang]('src.pkg',{})
        texts.append(utils.translate_program(tr,p))
        for _ in range(rounds):
            te=TypeErasure(p,lang,None,{}); te.transform(); texts.append(utils.translate_program(tr,p))
        to=TypeOverwriting(p,lang,None,{}); to.transform(); texts.append(utils.translate_program(tr,p))
    except (simrandom.Diverged, simrandom.Hang) as e:
        err='SIM '+type(e).__name__+' '+str(e)[:100]
    except Exception as e:
        fr=traceback.extract_tb(e.__traceback__)[-1]
        err='%s %s:%d'%(type(e).__name__,fr.name,fr.lineno)
    h=hashlib.sha1('\x00'.join(texts).encode()).hexdigest()[:16]
    return {'seed':seed,'lang':lang,'tape_digest':sr.digest(),'text_digest':h,'ndraws':len(sr.tape),'err':err,'tape':sr.tape}

def in_child(fn,*a):
    r,w=os.pipe(); pid=os.fork()
    if pid==0:
        os.close(r)
        try: res=fn(*a)
        except BaseException as e: res={'err':'HARNESS '+repr(e)[:200]}
        with os.fdopen(w,'w') as f: json.dump(res,f)
        os._exit(0)
    os.close(w)
    with os.fdopen(r) as f: data=f.read()
    os.waitpid(pid,0)
    return json.loads(data)

if __name__=='__main__':
    lo,hi=int(sys.argv[1]),int(sys.argv[2])
    t0=time.time(); bad=0; errs={}; nd=0
    for s in range(lo,hi):
        a=in_child(one_run,s); b=in_child(one_run,s)
        ok = a['tape_digest']==b['tape_digest'] and a['text_digest']==b['text_digest']
        tape=[tuple([tuple(e[0])]+e[1:]) for e in a['tape']]
        c=in_child(one_run,s,tape,False)   # replay from tape, buggify off: outcomes come from the tape
        ok2 = c['tape_digest']==a['tape_digest'] and c['text_digest']==a['text_digest'] and c['err']==a['err']
        nd+=a['ndraws']; print(s,a['lang'],a['ndraws'],a['err'],round(time.time()-t0,1),flush=True)
        if a['err']: errs[a['err']]=errs.get(a['err'],0)+1
        if not (ok and ok2):
            bad+=1; print('DIVERGE',s,a['lang'],ok,ok2,a['err'],c['err'])
    print('seeds',hi-lo,'divergences',bad,'avg draws',nd//(hi-lo),'time',round(time.time()-t0,1),'errors',errs)
