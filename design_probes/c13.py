import sys, random, itertools, collections, time, pickle, copy, traceback, os
random.seed(0)
sys.path.insert(0, '/repo')
from src import utils
from src.ir import node as _n, ast, types as tp
from src.generators.generator import Generator
from src.generators.config import cfg
from src.transformations.type_erasure import TypeErasure
from src.transformations.type_overwriting import TypeOverwriting
from src.translators.java import JavaTranslator
from src.translators.kotlin import KotlinTranslator
from src.translators.groovy import GroovyTranslator
from src.translators.scala import ScalaTranslator
TR={'java':JavaTranslator,'kotlin':KotlinTranslator,'groovy':GroovyTranslator,'scala':ScalaTranslator}
lang=sys.argv[1]
depth=int(sys.argv[4]) if len(sys.argv)>4 else 6
cfg.limits.max_depth=depth
utils.random.remove_reserved_words(lang)
stats=collections.Counter()
def T(tr,p): return utils.translate_program(tr,p)
for s in range(int(sys.argv[2]), int(sys.argv[3])):
    c=itertools.count(1)
    _n.Node.__hash__=(lambda c: (lambda self: self.__dict__.get("_vh") or self.__dict__.setdefault("_vh", next(c))))(c)
    utils.random.r.seed(s); utils.random.reset_word_pool()
    try:
        p=Generator(language=lang).generate()
    except RecursionError as e:
        stats['gen RecursionError']+=1; continue
    except Exception as e:
        fr=traceback.extract_tb(e.__traceback__)[-1]
        stats['gen EXC %s %s:%d'%(type(e).__name__,fr.name,fr.lineno)]+=1; continue
    stats['n']+=1
    try:
        tr=TR[lang]('src.pkg',{})
        a=T(tr,p); b=T(tr,p); c2=T(TR[lang]('src.pkg',{}),p)
        if a!=b: stats['C11 same-translator differs']+=1
        if a!=c2: stats['C11 fresh differs']+=1
        blob=pickle.dumps(p); q=pickle.loads(blob)
        d=T(TR[lang]('src.pkg',{}),q)
        if d!=a: stats['C13 load differs']+=1
        e2=T(tr,p)
        if e2!=a: stats['C11 after pickle differs']+=1
        # cross-language attempts
        for l2 in TR:
            if l2==lang: continue
            try:
                T(TR[l2]('src.pkg',{}),p); stats['cross ok '+l2]+=1
            except Exception as ex:
                stats['cross EXC '+l2+' '+type(ex).__name__]+=1
        f=T(TR[lang]('src.pkg',{}),p)
        if f!=a: stats['C11 after cross differs']+=1
        # mutation on loaded vs original with same seed
        st=utils.random.r.getstate()
        te=TypeErasure(p,lang,None,{}); te.transform(); g=T(TR[lang]('src.pkg',{}),te.result())
        utils.random.r.setstate(st)
        te2=TypeErasure(q,lang,None,{}); te2.transform(); h=T(TR[lang]('src.pkg',{}),te2.result())
        if g!=h: stats['C13 erase on loaded differs']+=1
        st=utils.random.r.getstate()
        to=TypeOverwriting(p,lang,None,{}); to.transform(); g=T(TR[lang]('src.pkg',{}),to.result())
        utils.random.r.setstate(st)
        to2=TypeOverwriting(q,lang,None,{}); to2.transform(); h=T(TR[lang]('src.pkg',{}),to2.result())
        if g!=h or to.error_injected!=to2.error_injected: stats['C13 overwrite on loaded differs']+=1
    except Exception as e:
        fr=traceback.extract_tb(e.__traceback__)[-1]
        stats['post EXC %s %s:%d'%(type(e).__name__,fr.name,fr.lineno)]+=1
print(lang, 'depth',depth, dict(stats))
