import sys, random, itertools, collections
random.seed(0)
sys.path.insert(0, '/repo')
from src import utils
from src.ir import node as _n
from src.generators.generator import Generator
from src.transformations.type_erasure import TypeErasure
from src.transformations import type_overwriting as towm
from src.transformations.type_overwriting import TypeOverwriting
from src.analysis import type_dependency_analysis as tda
from src.translators.java import JavaTranslator
from src.translators.kotlin import KotlinTranslator
TR={'java':JavaTranslator,'kotlin':KotlinTranslator}
lang=sys.argv[1]; erase=sys.argv[4]=='1'
utils.random.remove_reserved_words(lang)
# capture chosen node
chosen={}
orig_choice=utils.random.choice
stats=collections.Counter()
for s in range(int(sys.argv[2]), int(sys.argv[3])):
    c=itertools.count(1)
    _n.Node.__hash__=(lambda c: (lambda self: self.__dict__.get("_vh") or self.__dict__.setdefault("_vh", next(c))))(c)
    utils.random.r.seed(s); utils.random.reset_word_pool()
    p=Generator(language=lang).generate()
    tr=TR[lang]('src.pkg', {})
    if erase:
        te=TypeErasure(p, lang, None, {}); te.transform(); p=te.result()
    txt1=utils.translate_program(tr,p)
    picks=[]
    def spy(choices):
        r=orig_choice(choices)
        picks.append(r)
        return r
    utils.random.choice=spy
    to=TypeOverwriting(p, lang, None, {}); to.transform(); p=to.result()
    utils.random.choice=orig_choice
    txt2=utils.translate_program(tr,p)
    if to.is_transformed:
        stats['inj']+=1
        if txt1==txt2:
            stats['inj_same']+=1
            nodes=[x for x in picks if isinstance(x,(tda.DeclarationNode,tda.TypeConstructorInstantiationCallNode))]
            n=nodes[-1] if nodes else None
            print(s, to.error_injected, type(n).__name__, getattr(getattr(n,'t',None),'can_infer_type_args',None), type(getattr(n,'decl',None)).__name__)
print(stats)
