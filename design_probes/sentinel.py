import sys, random, itertools, collections, pickle, traceback
random.seed(0)
sys.path.insert(0,'/repo')
from src import utils
from src.ir import node as _n, ast, types as tp
from src.generators.generator import Generator
from src.transformations.type_erasure import TypeErasure
from src.translators.java import JavaTranslator
from src.translators.kotlin import KotlinTranslator
from src.translators.groovy import GroovyTranslator
from src.translators.scala import ScalaTranslator
TR={'java':JavaTranslator,'kotlin':KotlinTranslator,'groovy':GroovyTranslator,'scala':ScalaTranslator}
lang=sys.argv[1]
utils.random.remove_reserved_words(lang)
def walk(n, f, path=()):
    f(n)
    for c in n.children():
        if isinstance(c, tp.Type): continue
        walk(c, f)
stats=collections.Counter()
SENT=tp.SimpleClassifier('Zzsentinel')
for s in range(int(sys.argv[2]),int(sys.argv[3])):
    c=itertools.count(1)
    _n.Node.__hash__=(lambda c: (lambda self: self.__dict__.get("_vh") or self.__dict__.setdefault("_vh", next(c))))(c)
    utils.random.r.seed(s); utils.random.reset_word_pool()
    try:
        p=Generator(language=lang).generate()
        te=TypeErasure(p,lang,None,{}); te.transform()
    except Exception: continue
    blob=pickle.dumps(p)
    # enumerate var decl / func decl positions by index in walk order
    def collect(prog):
        nodes=[]
        for d in prog.declarations: walk(d, nodes.append)
        return nodes
    base=collect(p)
    idxs=[i for i,n in enumerate(base) if isinstance(n,(ast.VariableDeclaration,ast.FunctionDeclaration))]
    random.Random(s).shuffle(idxs)
    for i in idxs[:12]:
        for attr in ('declared','inferred'):
            q=pickle.loads(blob); n=collect(q)[i]
            if isinstance(n,ast.VariableDeclaration):
                carried = n.var_type is not None
                if attr=='declared':
                    if not carried: continue
                    n.var_type=SENT
                else: n.inferred_type=SENT
                kind='var'
            else:
                carried = n.ret_type is not None
                if attr=='declared':
                    if not carried: continue
                    n.ret_type=SENT
                else: n.inferred_type=SENT
                kind='fun'
            try:
                txt=utils.translate_program(TR[lang]('src.x',{}),q)
                present='Zzsentinel' in txt
                stats[(kind,attr,'carried' if carried else 'omitted','printed' if present else 'absent')]+=1
            except Exception as e:
                fr=traceback.extract_tb(e.__traceback__)[-1]
                stats[(kind,attr,'EXC',type(e).__name__,fr.name)]+=1
print(lang)
for k,v in sorted(stats.items(), key=str): print('  ',v,k)
