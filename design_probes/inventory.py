import sys, random, itertools, collections, re
random.seed(0)
sys.path.insert(0,'/repo')
from src import utils
from src.ir import node as _n, ast, types as tp
from src.generators.generator import Generator
from src.translators.kotlin import KotlinTranslator
from src.translators.java import JavaTranslator
from src.translators.scala import ScalaTranslator
from src.translators.groovy import GroovyTranslator
lang=sys.argv[1]
TR={'kotlin':KotlinTranslator,'java':JavaTranslator,'scala':ScalaTranslator,'groovy':GroovyTranslator}[lang]
utils.random.remove_reserved_words(lang)
def walk(n,f):
    f(n)
    for c in n.children():
        if isinstance(c,tp.Type): continue
        walk(c,f)
def strip_strings(t): return re.sub(r'"[^"\n]*"','""',t)
def balanced(t):
    t=re.sub(r"'.'","''",strip_strings(t))
    st=[]; pairs={')':'(',']':'[','}':'{'}
    for ch in t:
        if ch in '([{': st.append(ch)
        elif ch in ')]}':
            if not st or st.pop()!=pairs[ch]: return False
    return not st
stats=collections.Counter(); ex={}
for s in range(int(sys.argv[2]),int(sys.argv[3])):
    c=itertools.count(1)
    _n.Node.__hash__=(lambda c: (lambda self: self.__dict__.get("_vh") or self.__dict__.setdefault("_vh", next(c))))(c)
    utils.random.r.seed(s); utils.random.reset_word_pool()
    try: p=Generator(language=lang).generate()
    except Exception: continue
    txt=utils.translate_program(TR('src.pkg',{}),p)
    inv=collections.defaultdict(list)
    def f(n):
        if isinstance(n,ast.ClassDeclaration): inv['class'].append(n.name)
        elif isinstance(n,ast.FunctionDeclaration): inv['fun'].append(n.name)
        elif isinstance(n,ast.VariableDeclaration): inv['var'].append(n.name)
        elif isinstance(n,ast.FieldDeclaration): inv['field'].append(n.name)
        elif isinstance(n,ast.ParameterDeclaration): inv['param'].append(n.name)
    for d in p.declarations: walk(d,f)
    t=strip_strings(txt)
    stats['n']+=1
    if not balanced(txt): stats['UNBALANCED']+=1; ex.setdefault('UNBALANCED',s)
    if lang in('kotlin','scala'):
        kw = r'(?:class|interface)' if lang=='kotlin' else r'(?:class|trait)'
        classes=re.findall(r'\b'+kw+r'\s+(\w+)',t)
        funs=re.findall(r'\b(?:fun|def)\s+(?:<[^>]*>\s*)?(\w+)\s*[\[\(]',t)
        vv=re.findall(r'\b(?:val|var)\s+(\w+)',t)
        if sorted(classes)!=sorted(inv['class']): stats['class-mismatch']+=1; ex.setdefault('class',(s,sorted(set(classes)^set(inv['class']))[:6]))
        if sorted(funs)!=sorted(inv['fun']): stats['fun-mismatch']+=1; ex.setdefault('fun',(s,[x for x in set(funs)^set(inv['fun'])][:6], len(funs),len(inv['fun'])))
        want=collections.Counter(inv['var']+inv['field']); got=collections.Counter(vv)
        extra=got-want; missing=want-got
        if missing: stats['var-missing']+=1; ex.setdefault('var-missing',(s,list(missing)[:5]))
        if set(extra)-{'y'}: stats['var-extra']+=1; ex.setdefault('var-extra',(s,list(extra)[:5]))
    else:
        classes=re.findall(r'\b(?:class|interface)\s+(\w+)',t)
        want=set(inv['class'])|{'Main'}
        got=set(x for x in classes if not re.fullmatch(r'Function\d+',x))
        if got!=want: stats['class-mismatch']+=1; ex.setdefault('class',(s,sorted(got^want)[:6]))
        if collections.Counter(x for x in classes if not re.fullmatch(r'Function\d+',x))!=collections.Counter(list(inv['class'])+['Main']): stats['class-count-mismatch']+=1
        for name in inv['fun']:
            if not re.search(r'\b'+name+r'\s*\(|\b'+name+r'\s*=\s*(\(|\{)',t): stats['fun-missing']+=1; ex.setdefault('fun-missing',(s,name))
        for name in inv['field']+inv['var']:
            if not re.search(r'\b'+name+r'\b',t): stats['name-missing']+=1
print(lang,dict(stats),ex)
