# scratch prototype: whole hephaestus.py session under a scripted compiler (design probe)
import sys, os, random, time, json, io, contextlib, shutil, glob, collections, traceback

def session(seed, lang='java'):
    rnd = random.Random(seed)
    random.seed(0)
    sys.path.insert(0, '/repo')
    sb = '/tmp/scratch/sbx/%d' % seed
    shutil.rmtree(sb, ignore_errors=True); os.makedirs(sb)
    iters = rnd.randint(1, 7); batch = rnd.randint(1, 4); t = rnd.choice([0, 0, 1]); P = rnd.random() < 0.3
    argv = ['hephaestus.py', '--language', lang, '--bugs', sb + '/bugs', '--name', 'sess',
            '--iterations', str(iters), '--batch', str(batch), '-t', str(t),
            '--log-file', sb + '/logs', '--max-depth', '2']
    if P: argv.append('-P')
    workers = rnd.choice([0, 2, 3])
    if workers: argv += ['--workers', str(workers)]
    sys.argv = argv
    import hephaestus as H
    from src import utils
    from src.ir import node as _n
    import itertools
    c = itertools.count(1)
    _n.Node.__hash__ = (lambda c: (lambda self: self.__dict__.get("_vh") or self.__dict__.setdefault("_vh", next(c))))(c)
    utils.random.r.seed(seed)
    plan = {'crash_p': rnd.choice([0, 0, 0.2, 0.5]), 'err_p': rnd.choice([0, 0.2, 0.5]),
            'accept_p': rnd.choice([0, 0.2, 0.5]), 'genfail_p': rnd.choice([0, 0, 0.2, 0.4])}
    truth = {'batches': []}
    results = {}      # pid -> ProgramRes
    genfail = set()
    orig_gen = H.gen_program
    def gen_program(pid, dirname, packages):
        r = orig_gen(pid, dirname, packages)
        results[pid] = r
        return r
    H.gen_program = gen_program
    # generator failure injection at a random stage
    PP = H.ProgramProcessor
    orig_get, orig_inj, orig_tr = PP.get_program, PP.inject_fault, PP.transform_program
    def get_program(self):
        if rnd.random() < plan['genfail_p'] / 2: genfail.add(self.proc_id); raise RuntimeError('injected gen failure')
        return orig_get(self)
    def inject_fault(self, program):
        if rnd.random() < plan['genfail_p'] / 2: genfail.add(self.proc_id); raise RuntimeError('injected inject failure')
        return orig_inj(self, program)
    PP.get_program = get_program; PP.inject_fault = inject_fault
    def fake_run_command(arguments, get_stdout=True):
        if arguments[1] == '-version': return True, 'javac 17.0.0\n'
        files = sorted(glob.glob(arguments[-1]))
        b = {'files': files, 'crash': False, 'errors': {}}
        truth['batches'].append(b)
        if rnd.random() < plan['crash_p']:
            b['crash'] = True
            return False, 'An exception has occurred in the compiler (17). \njava.lang.NullPointerException\n\tat jdk.compiler/com.sun.tools.javac.comp.Attr.visit(Attr.java:1)\n'
        out = ''
        for f in files:
            if rnd.random() < 0.5:
                n = rnd.randint(1, 2)
                b['errors'][f] = n
                for i in range(n):
                    out += '%s:%d: error: incompatible types: Foo cannot be converted to Bar\n        x = y;\n            ^\n' % (f, 3 + i)
        if out: out += '%d errors\n' % sum(b['errors'].values())
        return out == '', out
    H.run_command = fake_run_command
    sched = {'order': []}
    class AR:
        def __init__(self, pool, fn, args, cb):
            self.pool, self.fn, self.args, self.cb = pool, fn, args, cb
            self.done = False; self.val = None; self.cb_done = cb is None
        def run(self):
            saved = (H.STOP_COND,)
            self.val = self.fn(*self.args); self.done = True
            self.pool.pending_cb.append(self) if self.cb else None
        def get(self):
            while not self.done: self.pool.step(prefer=self)
            return self.val
    class SimPool:
        def __init__(self, n): self.tasks = []; self.pending_cb = []
        def apply_async(self, fn, args=(), callback=None):
            ar = AR(self, fn, args, callback); self.tasks.append(ar); return ar
        def step(self, prefer=None):
            runnable = [t for t in self.tasks if not t.done]
            cbs = list(self.pending_cb)
            choices = [('task', t) for t in runnable] + [('cb', c) for c in cbs]
            kind, x = rnd.choice(choices)
            sched['order'].append((kind, getattr(x.fn, '__name__', '?')))
            if kind == 'task': x.run()
            else:
                self.pending_cb.remove(x); x.cb(x.val); x.cb_done = True
        def close(self): pass
        def join(self):
            while [t for t in self.tasks if not t.done] or self.pending_cb: self.step()
        def terminate(self): pass
    class MP: Pool = SimPool
    H.mp = MP
    n = [0]
    def mk():
        n[0] += 1; d = sb + '/tmp%d' % n[0]; os.makedirs(d); return d
    H.tempfile.mkdtemp = mk
    buf = io.StringIO(); exc = None
    try:
        with contextlib.redirect_stdout(buf):
            H.main()
    except BaseException as e:
        fr = traceback.extract_tb(e.__traceback__)[-1]
        exc = '%s %s:%d %s' % (type(e).__name__, fr.name, fr.lineno, str(e)[:80])
    # ---- oracle
    problems = []
    if exc:
        problems.append(('session-exception', exc))
    sess = sb + '/bugs/sess'
    # expected
    expected = set()
    path2batch = {}
    for b in truth['batches']:
        for f in b['files']: path2batch[f] = b
    pids_by_batch = collections.defaultdict(list)
    compiled = set()
    for pid, r in results.items():
        if r.failed:
            expected.add(pid); continue
        progs = r.stats['programs']
        b = None
        for f in progs:
            b = path2batch.get(f)
        if b is None:
            problems.append(('file-not-compiled', pid)); continue
        compiled.add(pid)
        if b['crash']:
            expected.add(pid); continue
        for f, oracle in progs.items():
            has_err = f in b['errors']
            if oracle and has_err: expected.add(pid)
            if (not oracle) and (not has_err): expected.add(pid)
    if not exc:
        try:
            faults = json.load(open(sess + '/faults.json'))
            stats = json.load(open(sess + '/stats.json'))
            got = set(int(k) for k in faults)
            if got != expected:
                problems.append(('report-set', 'missing=%s extra=%s genfail=%s crashb=%s' % (
                    sorted(expected - got), sorted(got - expected), sorted(genfail),
                    [i for i, b in enumerate(truth['batches']) if b['crash']])))
            tot = stats['totals']
            if tot['passed'] + tot['failed'] != len(results):
                problems.append(('counter-sum', '%s vs %d' % (tot, len(results))))
            if tot['failed'] != len(got):
                problems.append(('failed-count', '%s vs %d' % (tot, len(got))))
            if len(results) != iters:
                problems.append(('iterations', '%d vs %d' % (len(results), iters)))
            # directory model
            dirs = set(d for d in os.listdir(sess) if d.isdigit())
            want = set(str(p) for p in got if not results[p].failed)
            if dirs != want:
                problems.append(('dir-model', 'have=%s want=%s' % (sorted(dirs), sorted(want))))
            if os.path.exists(sess + '/tmp'): problems.append(('tmp-left', ''))
            left = [d for d in os.listdir(sb) if d.startswith('tmp')]
            if left: problems.append(('batchdir-left', str(left)))
        except Exception as e:
            problems.append(('oracle-exc', repr(e)[:200]))
    shutil.rmtree(sb, ignore_errors=True)
    return {'seed': seed, 'cfg': argv[7:], 'plan': plan, 'problems': problems,
            'n': len(results), 'workers': workers, 'sched': len(sched['order']), 'genfail': len(genfail), 'crash': sum(b['crash'] for b in truth['batches'])}

if __name__ == '__main__':
    lo, hi = int(sys.argv[1]), int(sys.argv[2])
    out = []
    for s in range(lo, hi):
        pid = os.fork()
        if pid == 0:
            try:
                r = session(s)
            except BaseException as e:
                r = {'seed': s, 'problems': [('harness', repr(e)[:300])]}
            with open('/tmp/scratch/sbx_res_%d.json' % s, 'w') as f: json.dump(r, f)
            os._exit(0)
        os.waitpid(pid, 0)
