import sys, random, itertools, collections, time
random.seed(0)
sys.path.insert(0, '/repo')
from src import utils
from src.ir import node as _n, types as tp, type_utils as tu
from src.generators.generator import Generator
lang='java'
utils.random.remove_reserved_words(lang)
R=utils.random
sites=collections.Counter(); draws=[0]
for name in ['bool','word','integer','char','choice','sample','str','caps','range']:
    orig=getattr(R,name)
    def mk(orig,name):
        def w(*a,**k):
            f=sys._getframe(1)
            sites[(name,f.f_code.co_filename.split('/')[-1],f.f_lineno)]+=1
            draws[0]+=1
            return orig(*a,**k)
        return w
    setattr(R,name,mk(orig,name))
calls=collections.Counter()
def wrapm(cls,meth):
    o=getattr(cls,meth)
    def w(self,*a,**k):
        calls[cls.__name__+'.'+meth]+=1
        return o(self,*a,**k)
    setattr(cls,meth,w)
for cls in [tp.SimpleClassifier,tp.ParameterizedType,tp.TypeParameter,tp.WildCardType,tp.TypeConstructor,tp.Builtin]:
    wrapm(cls,'is_subtype')
wrapm(tp.TypeConstructor,'new')
for fn in ['instantiate_type_constructor','instantiate_parameterized_function','find_subtypes','unify_types','_compute_type_variable_assignments']:
    o=getattr(tu,fn)
    def mk2(o,fn):
        def w(*a,**k):
            calls[fn]+=1; return o(*a,**k)
        return w
    setattr(tu,fn,mk2(o,fn))
per=[]
t0=time.time()
for s in range(0,100):
    c=itertools.count(1)
    _n.Node.__hash__=(lambda c: (lambda self: self.__dict__.get("_vh") or self.__dict__.setdefault("_vh", next(c))))(c)
    R.r.seed(s); R.reset_word_pool(); draws[0]=0
    try: Generator(language=lang).generate()
    except Exception as e: print('exc',s,e)
    per.append(draws[0])
per.sort()
print('draws/program: median',per[50],'p90',per[90],'max',per[-1],'time',round(time.time()-t0,1))
print('distinct sites',len(sites))
print({k:v//100 for k,v in calls.items()})
