# scratch prototype: structural snapshot + declarative subtype relation
import sys
from src.ir import types as tp

def is_top(t):
    return isinstance(t, tp.Builtin) and t.name in ('Any','Object')

def snap(t, depth=0):
    if t is None: return None
    if depth>12: return ('DEEP',)
    if isinstance(t, tp.WildCardType):
        return ('W', t.variance.value, snap(t.bound, depth+1))
    if isinstance(t, tp.TypeParameter):
        return ('V', t.name, t.variance.value, snap(t.bound, depth+1))
    if isinstance(t, tp.ParameterizedType):
        return ('P', t.name, tuple(snap(a, depth+1) for a in t.type_args))
    if isinstance(t, tp.TypeConstructor):
        return ('TC', t.name)
    if isinstance(t, tp.Builtin):
        return ('B', t.name, bool(getattr(t,'primitive',False)), type(t).__name__)
    if isinstance(t, tp.NothingType) or t.name=='Nothing':
        return ('N',)
    if isinstance(t, tp.SimpleClassifier):
        return ('C', t.name)
    return ('?', type(t).__name__, getattr(t,'name',None))

class Unknown(Exception): pass

def subst(t, m):
    """independent substitution on live objects -> returns snapshot-like 'view' objects.
    We operate on snapshots with a map name->snapshot."""
    k=t[0]
    if k=='V':
        if t[1] in m: return m[t[1]]
        return t
    if k=='P':
        return ('P', t[1], tuple(subst(a,m) for a in t[2]))
    if k=='W':
        return ('W', t[1], None if t[2] is None else subst(t[2],m))
    return t

def decl_info(t):
    """from a live type object return (params [(name,variance)], declared supertypes snapshots)"""
    if isinstance(t, tp.ParameterizedType):
        tc=t.t_constructor
        return [(p.name,p.variance.value) for p in tc.type_parameters], tc.supertypes
    return [], list(t.supertypes) if not isinstance(t.supertypes,set) else list(t.supertypes)

def sub(S, T, fuel=60):
    """S,T live type objects. returns True/False or raises Unknown"""
    if fuel<=0: raise Unknown('fuel')
    s=snap(S); t=snap(T)
    if s==('N',) or (isinstance(S,tp.Builtin) and S.name=='Nothing'): return True
    if s==t: return True
    if isinstance(S, tp.TypeConstructor) or isinstance(T, tp.TypeConstructor): raise Unknown('tc')
    if isinstance(T, tp.WildCardType) or isinstance(S, tp.WildCardType):
        raise Unknown('wild-top')
    if isinstance(S, tp.TypeParameter):
        if S.bound is None:
            return is_top(T)
        return sub(S.bound, T, fuel-1)
    if isinstance(T, tp.TypeParameter):
        return False
    if is_top(T) and not getattr(S,'primitive',False):
        return True
    # same constructor
    if isinstance(S, tp.ParameterizedType) and isinstance(T, tp.ParameterizedType) and S.name==T.name:
        params=S.t_constructor.type_parameters
        if len(S.type_args)!=len(T.type_args): return False
        ok=True
        for p,a,b in zip(params,S.type_args,T.type_args):
            if not contained(a,b,p.variance.value,fuel-1): ok=False;break
        if ok: return True
        # fallthrough: could also be via supertypes (rare)
    # nominal step
    params, supers = decl_info(S)
    if isinstance(S, tp.ParameterizedType):
        m={p.name: a for p,a in zip(S.t_constructor.type_parameters, S.type_args)}
        for U in supers:
            U2 = live_subst(U, m)
            if sub(U2, T, fuel-1): return True
        return False
    for U in supers:
        if sub(U, T, fuel-1): return True
    return False

def equiv(a,b,fuel):
    return snap(a)==snap(b) or (sub(a,b,fuel) and sub(b,a,fuel))

def contained(a,b,var,fuel):
    aw=isinstance(a,tp.WildCardType); bw=isinstance(b,tp.WildCardType)
    if bw and b.bound is None: return True
    if aw and a.bound is None:
        # star on the left: only contained in star / out Top
        if bw and b.variance.value==1 and is_top(b.bound): return True
        return False
    if not aw and not bw:
        if var==0: return equiv(a,b,fuel)
        if var==1: return sub(a,b,fuel)
        return sub(b,a,fuel)
    if bw and not aw:
        if b.variance.value==1: return sub(a,b.bound,fuel)
        if b.variance.value==2: return sub(b.bound,a,fuel)
        return equiv(a,b.bound,fuel)
    if aw and bw:
        if a.variance.value==1 and b.variance.value==1: return sub(a.bound,b.bound,fuel)
        if a.variance.value==2 and b.variance.value==2: return sub(b.bound,a.bound,fuel)
        return False
    # aw and not bw
    if var==1 and a.variance.value==1: return sub(a.bound,b,fuel)
    if var==2 and a.variance.value==2: return sub(b,a.bound,fuel)
    return False

def live_subst(t, m):
    """substitute on live objects producing new live objects WITHOUT repo substitute helpers"""
    if isinstance(t, tp.TypeParameter):
        return m.get(t.name, t)
    if isinstance(t, tp.WildCardType):
        if t.bound is None: return t
        return tp.WildCardType(live_subst(t.bound,m), t.variance)
    if isinstance(t, tp.ParameterizedType):
        new=object.__new__(tp.ParameterizedType)
        new.__dict__.update(t.__dict__)
        new.type_args=[live_subst(a,m) for a in t.type_args]
        return new
    return t
