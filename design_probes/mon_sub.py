import sys, random, itertools, collections, time, traceback
random.seed(0)
sys.path.insert(0, '/repo'); sys.path.insert(0,'/tmp/scratch/proto')
from src import utils
from src.ir import node as _n, types as tp
from src.generators.generator import Generator
from src.transformations.type_erasure import TypeErasure
from src.transformations.type_overwriting import TypeOverwriting
import refsub
lang=sys.argv[1]
utils.random.remove_reserved_words(lang)
stats=collections.Counter(); examples={}
depth=[0]
seen=set()
def wrap(cls):
    orig=cls.__dict__.get('is_subtype')
    if orig is None: return
    def w(self, other):
        depth[0]+=1
        try:
            r=orig(self, other)
        finally:
            depth[0]-=1
        if depth[0]==0 or True:
            key=(refsub.snap(self), refsub.snap(other))
            if key not in seen:
                seen.add(key)
                try:
                    ref=refsub.sub(self, other)
                    stats['checked']+=1
                    if bool(r) and not ref:
                        cl=('UNSOUND', type(self).__name__, type(other).__name__)
                        stats[cl]+=1; examples.setdefault(cl,(str(self),str(other)))
                    elif ref and not r:
                        cl=('INCOMPLETE', type(self).__name__, type(other).__name__)
                        stats[cl]+=1; examples.setdefault(cl,(str(self),str(other)))
                except refsub.Unknown as u:
                    stats['unknown '+str(u)]+=1
                except RecursionError:
                    stats['ref recursion']+=1
        return r
    cls.is_subtype=w
for cls in [tp.SimpleClassifier,tp.ParameterizedType,tp.TypeParameter,tp.WildCardType,tp.TypeConstructor,tp.Builtin]:
    wrap(cls)
t0=time.time()
for s in range(int(sys.argv[2]), int(sys.argv[3])):
    c=itertools.count(1)
    _n.Node.__hash__=(lambda c: (lambda self: self.__dict__.get("_vh") or self.__dict__.setdefault("_vh", next(c))))(c)
    utils.random.r.seed(s); utils.random.reset_word_pool(); seen.clear()
    try:
        p=Generator(language=lang).generate()
        te=TypeErasure(p,lang,None,{}); te.transform()
        to=TypeOverwriting(p,lang,None,{}); to.transform()
    except Exception as e:
        stats['exc '+type(e).__name__]+=1
for k,v in sorted(stats.items(), key=lambda kv: str(kv[0])): print(v,k, examples.get(k,''))
print('time',round(time.time()-t0,1))
