import sys, os, random, time, json, io, contextlib, shutil
random.seed(0)
sys.path.insert(0,'/repo')
sb='/tmp/scratch/sb'; shutil.rmtree(sb, ignore_errors=True); os.makedirs(sb)
sys.argv=['hephaestus.py','--language','java','--bugs',sb+'/bugs','--name','sess','--iterations','6','--batch','3','-t','1','--log-file',sb+'/logs','--max-depth','3']
t0=time.time()
import hephaestus as H
print('import',round(time.time()-t0,2))
calls=[]
def fake_run_command(arguments, get_stdout=True):
    calls.append(arguments)
    if arguments[1]=='-version': return True,'javac 17.0.0\n'
    # emit an error for the first Main.java found
    import glob
    files=sorted(glob.glob(arguments[-1]))
    out=''
    if len(calls)==2 and files:
        out='%s:12: error: incompatible types: String cannot be converted to Integer\n        Integer x = "a";\n                    ^\n1 error\n'%files[0]
    return (out==''), out
H.run_command=fake_run_command
n=[0]
def mk(): 
    n[0]+=1; d=sb+'/tmp%d'%n[0]; os.makedirs(d); return d
H.tempfile.mkdtemp=mk
buf=io.StringIO()
with contextlib.redirect_stdout(buf):
    H.main()
print('done',round(time.time()-t0,2))
print(H.STATS['totals'], list(H.STATS['faults'].keys()))
for r,ds,fs in os.walk(sb):
    print(r, fs)
print(calls)
