# scratch prototype of the reference checker (design probe, not framework)
import sys, collections
from src.ir import ast, types as tp
import refsub
from refsub import snap, Unknown

BOTTOM = object()


class Ctx:
    def __init__(self, program):
        self.p = program
        self.f = program.bt_factory
        self.lang = program.language
        self.decls = dict(program.context.get_declarations(('global',), only_current=True))
        self.classes = {n: d for n, d in self.decls.items() if isinstance(d, ast.ClassDeclaration)}
        self.viol = []
        self.stats = collections.Counter()
        self.void = self.f.get_void_type()
        self.boolean = self.f.get_boolean_type()
        self.infer = False
        self.diffs = []

    def report(self, rule, where, detail):
        self.viol.append((rule, where, detail))


def is_builtin_name(t, name):
    return isinstance(t, tp.Builtin) and t.name == name


def bname(t):
    return type(t).__name__


def sub(ctx, a, b):
    # identify primitives with their boxes (IR: Builtin equality is by class)
    if isinstance(a, tp.Builtin) and isinstance(b, tp.Builtin) and type(a) is type(b):
        return True
    # boxing: a primitive behaves as its box for assignability (Java/Groovy)
    if isinstance(a, tp.Builtin) and getattr(a, 'primitive', False) and hasattr(a, 'box_type'):
        try:
            a = a.box_type()
        except NotImplementedError:
            pass
    try:
        return patched_sub(a, b)
    except Unknown:
        ctx.stats['sub_unknown'] += 1
        return True
    except RecursionError:
        ctx.stats['sub_rec'] += 1
        return True


def patched_sub(a, b):
    return refsub.sub(a, b)


# make refsub's snap ignore primitive flag
_orig_snap = refsub.snap
def _snap(t, depth=0):
    s = _orig_snap(t, depth)
    if s and s[0] == 'B':
        return ('B', s[3])
    if s and s[0] == 'P':
        return ('P', s[1], tuple(_snap(a, depth + 1) for a in t.type_args))
    if s and s[0] == 'W':
        return ('W', s[1], _snap(t.bound, depth + 1))
    if s and s[0] == 'V':
        return ('V', s[1], s[2], _snap(t.bound, depth + 1))
    return s
refsub.snap = _snap
snap = _snap


def subst(t, m):
    if t is None or not m:
        return t
    return refsub.live_subst(t, {k.name if hasattr(k, 'name') else k: v for k, v in m.items()})


def has_tvars(t):
    if isinstance(t, tp.TypeParameter): return True
    if isinstance(t, tp.WildCardType): return t.bound is not None and has_tvars(t.bound)
    if isinstance(t, tp.ParameterizedType): return any(has_tvars(a) for a in t.type_args)
    return False


def class_of(ctx, t):
    """return (class_decl, map class-param-name -> type arg) for a receiver type, or None"""
    seen = 0
    while isinstance(t, (tp.TypeParameter, tp.WildCardType)):
        t = t.bound
        seen += 1
        if t is None or seen > 10:
            return None
    if t is None: return None
    cd = ctx.classes.get(t.name)
    if cd is None: return None
    m = {}
    if cd.type_parameters and isinstance(t, tp.ParameterizedType):
        if len(cd.type_parameters) != len(t.type_args): return None
        m = {p.name: a for p, a in zip(cd.type_parameters, t.type_args)}
    elif cd.type_parameters:
        return None
    return cd, m


def find_member(ctx, cd, m, name, kind):
    """walk inheritance chain; returns (decl, map) """
    depth = 0
    while cd is not None and depth < 30:
        coll = cd.fields if kind == 'field' else cd.functions
        for d in coll:
            if d.name == name:
                return d, m
        if not cd.superclasses: return None
        st = cd.superclasses[0].class_type
        st = refsub.live_subst(st, m) if m else st
        r = class_of(ctx, st)
        if r is None: return None
        cd, m = r
        depth += 1
    return None


def project_read(ctx, t, declared):
    """member type `declared` after substitution gave t; approximate wildcard reads."""
    if isinstance(t, tp.WildCardType):
        if t.bound is None: return None
        if t.variance.value == 1: return t.bound
        return None  # in-projection read: unknown
    if isinstance(t, tp.ParameterizedType) and any(isinstance(a, tp.WildCardType) for a in t.type_args):
        # only unknown if wildcard came from substitution into nested position
        return t
    return t


class Scope:
    def __init__(self, parent=None):
        self.parent = parent
        self.names = {}
        self.casts = {}
    def lookup(self, name):
        s = self
        while s is not None:
            if name in s.names: return s.names[name]
            s = s.parent
        return None
    def cast(self, name):
        s = self
        while s is not None:
            if name in s.casts: return s.casts[name]
            if name in s.names: return None
            s = s.parent
        return None


INFERRED = {}

def decl_type(d):
    if id(d) in INFERRED and INFERRED[id(d)] is not None and INFERRED[id(d)] is not BOTTOM:
        return INFERRED[id(d)]
    return d.get_type()


def is_sam_iface(ctx, t):
    r = class_of(ctx, t) if not isinstance(t, tp.Builtin) else None
    if r is None: return False
    cd, _ = r
    return cd.class_type == ast.ClassDeclaration.INTERFACE


def assignable(ctx, actual, expected, where, rule, expr=None):
    ctx.stats['oblig_' + rule] += 1
    if actual is BOTTOM: return True
    if actual is None or expected is None:
        ctx.stats['unknown_' + rule] += 1
        return True
    if isinstance(expected, tp.WildCardType):
        if expected.bound is None: return True
        if sub(ctx, actual, expected.bound) or sub(ctx, expected.bound, actual): return True
        ctx.report(rule, where, 'actual %s expected %s' % (actual, expected)); return False
    if isinstance(actual, tp.WildCardType):
        if actual.bound is None or actual.variance.value != 1:
            ctx.stats['unknown_' + rule] += 1; return True
        actual = actual.bound
    if expected == ctx.void or is_builtin_name(expected, 'Unit'):
        return True
    if isinstance(expr, (ast.Lambda, ast.FunctionReference)) and is_sam_iface(ctx, expected):
        ctx.stats['sam'] += 1
        return True
    if sub(ctx, actual, expected): return True
    # numeric literal leniency
    ctx.report(rule, where, 'actual %s expected %s' % (actual, expected))
    return False


def typeof(ctx, e, sc, where, expected=None):
    k = type(e)
    if k is ast.IntegerConstant: return e.integer_type
    if k is ast.RealConstant: return e.real_type
    if k is ast.BooleanConstant: return ctx.boolean
    if k is ast.CharConstant: return ctx.f.get_char_type()
    if k is ast.StringConstant: return ctx.f.get_string_type()
    if k is ast.BottomConstant: return BOTTOM
    if k is ast.Variable:
        c = sc.cast(e.name)
        if c is not None: return c
        d = sc.lookup(e.name)
        if d is None:
            ctx.report('unresolved-var', where, e.name); return None
        return decl_type(d)
    if k is ast.New: return t_new(ctx, e, sc, where)
    if k is ast.FieldAccess: return t_field(ctx, e, sc, where)
    if k is ast.FunctionCall: return t_call(ctx, e, sc, where)
    if k is ast.FunctionReference:
        if e.receiver is not None: typeof(ctx, e.receiver, sc, where)
        return e.signature
    if k is ast.Lambda: return t_lambda(ctx, e, sc, where)
    if k is ast.Conditional: return t_cond(ctx, e, sc, where, expected)
    if k is ast.Block: return t_block(ctx, e, sc, where, expected)
    if k is ast.Assignment: return t_assign(ctx, e, sc, where)
    if k is ast.ArrayExpr:
        et = e.array_type.type_args[0]
        for x in e.exprs:
            assignable(ctx, typeof(ctx, x, sc, where, et), et, where, 'array-elem', x)
        return e.array_type
    if k is ast.Is:
        typeof(ctx, e.lexpr, sc, where); return ctx.boolean
    if isinstance(e, ast.BinaryOp):
        typeof(ctx, e.lexpr, sc, where); typeof(ctx, e.rexpr, sc, where)
        return ctx.boolean
    if k is ast.VariableDeclaration:
        check_var(ctx, e, sc, where); sc.names[e.name] = e; return ctx.void
    if k is ast.FunctionDeclaration:
        sc.names[e.name] = e; check_func(ctx, e, sc, where + '/' + e.name); return ctx.void
    ctx.stats['unknown_node_' + k.__name__] += 1
    return None


def t_new(ctx, e, sc, where):
    t = e.class_type
    if isinstance(t, tp.Builtin): return t
    r = class_of(ctx, t)
    if r is None:
        ctx.stats['new_unknown_class'] += 1
        for a in e.args: typeof(ctx, a, sc, where)
        return t
    cd, m = r
    if cd.class_type != ast.ClassDeclaration.REGULAR:
        ctx.report('new-abstract', where, cd.name)
    if len(e.args) != len(cd.fields):
        ctx.report('ctor-arity', where, '%s %d vs %d' % (cd.name, len(e.args), len(cd.fields)))
        return t
    check_targs(ctx, cd.type_parameters, m, where, 'new')
    for a, f in zip(e.args, cd.fields):
        ft = refsub.live_subst(f.get_type(), m) if m else f.get_type()
        assignable(ctx, typeof(ctx, a, sc, where, ft), ft, where, 'ctor-arg', a)
    return t


def check_targs(ctx, tparams, m, where, what):
    for p in tparams:
        a = m.get(p.name)
        if a is None or p.bound is None: continue
        ctx.stats['oblig_targ-bound'] += 1
        b = refsub.live_subst(p.bound, m)
        x = a
        if isinstance(a, tp.WildCardType):
            if a.bound is None or a.variance.value != 1:
                continue
            x = a.bound
        if isinstance(x, tp.Builtin) and x.name == 'Nothing': continue
        if not sub(ctx, x, b):
            ctx.report('targ-bound', where, '%s: %s := %s not <: %s' % (what, p.name, a, b))


def t_field(ctx, e, sc, where):
    rt = typeof(ctx, e.expr, sc, where)
    if rt is BOTTOM or rt is None:
        ctx.stats['field_unknown_recv'] += 1; return None
    r = class_of(ctx, rt)
    if r is None:
        ctx.stats['field_unknown_recv'] += 1; return None
    cd, m = r
    fm = find_member(ctx, cd, m, e.field, 'field')
    if fm is None:
        ctx.report('unresolved-field', where, '%s.%s' % (rt, e.field)); return None
    f, m2 = fm
    ft = refsub.live_subst(f.get_type(), m2) if m2 else f.get_type()
    return project_read(ctx, ft, f.get_type())


def sig_parts(t):
    """FunctionN type -> (param types, ret)"""
    if isinstance(t, tp.ParameterizedType) and t.name.startswith('Function'):
        return list(t.type_args[:-1]), t.type_args[-1]
    return None


def t_call(ctx, e, sc, where):
    if e.is_ref_call:
        if e.receiver is None:
            d = sc.lookup(e.func)
            ft = sc.cast(e.func) or (decl_type(d) if d is not None else None)
            if d is None:
                ctx.report('unresolved-refcall', where, e.func)
        else:
            rt = typeof(ctx, e.receiver, sc, where)
            ft = None
            if rt is not BOTTOM and rt is not None:
                r = class_of(ctx, rt)
                if r:
                    fm = find_member(ctx, r[0], r[1], e.func, 'field')
                    if fm:
                        ft = refsub.live_subst(fm[0].get_type(), fm[1]) if fm[1] else fm[0].get_type()
        if isinstance(ft, tp.WildCardType): ft = ft.bound
        if isinstance(ft, tp.TypeParameter): ft = ft.bound
        sp = sig_parts(ft) if ft is not None else None
        if sp is None:
            ctx.stats['refcall_unknown'] += 1
            for a in e.args: typeof(ctx, a.expr, sc, where)
            return None
        ps, ret = sp
        if len(ps) != len(e.args):
            ctx.report('refcall-arity', where, e.func); return ret
        for a, pt in zip(e.args, ps):
            if isinstance(pt, tp.WildCardType) and pt.variance.value == 2: pt = pt.bound
            assignable(ctx, typeof(ctx, a.expr, sc, where, pt), pt, where, 'arg', a.expr)
        if isinstance(ret, tp.WildCardType):
            ret = ret.bound if ret.variance.value == 1 else None
        return ret
    m = {}
    if e.receiver is None:
        d = sc.lookup(e.func)
        if d is None or not isinstance(d, ast.FunctionDeclaration):
            ctx.report('unresolved-func', where, e.func)
            for a in e.args: typeof(ctx, a.expr, sc, where)
            return None
    else:
        rt = typeof(ctx, e.receiver, sc, where)
        if rt is BOTTOM or rt is None:
            ctx.stats['call_unknown_recv'] += 1
            for a in e.args: typeof(ctx, a.expr, sc, where)
            return None
        r = class_of(ctx, rt)
        if r is None:
            ctx.stats['call_unknown_recv'] += 1
            for a in e.args: typeof(ctx, a.expr, sc, where)
            return None
        fm = find_member(ctx, r[0], r[1], e.func, 'func')
        if fm is None:
            ctx.report('unresolved-method', where, '%s.%s' % (rt, e.func))
            for a in e.args: typeof(ctx, a.expr, sc, where)
            return None
        d, m = fm
        m = dict(m)
    if d.type_parameters:
        if len(e.type_args) != len(d.type_parameters):
            ctx.report('call-targ-arity', where, e.func)
        else:
            for p, a in zip(d.type_parameters, e.type_args): m[p.name] = a
            check_targs(ctx, d.type_parameters, m, where, 'call ' + e.func)
    # arguments
    params = list(d.params)
    pos = [a for a in e.args if a.name is None]
    named = [a for a in e.args if a.name is not None]
    i = 0
    for p in params:
        pt = refsub.live_subst(p.get_type(), m) if m else p.get_type()
        if p.vararg:
            et = pt.type_args[0] if isinstance(pt, tp.ParameterizedType) else None
            while i < len(pos):
                assignable(ctx, typeof(ctx, pos[i].expr, sc, where, et), et, where, 'arg', pos[i].expr); i += 1
            continue
        nm = [a for a in named if a.name == p.name]
        if nm:
            assignable(ctx, typeof(ctx, nm[0].expr, sc, where, pt), pt, where, 'arg', nm[0].expr)
        elif p.default is not None:
            continue
        else:
            if i >= len(pos):
                ctx.report('call-arity', where, e.func); break
            assignable(ctx, typeof(ctx, pos[i].expr, sc, where, pt), pt, where, 'arg', pos[i].expr); i += 1
    if i < len(pos):
        ctx.report('call-arity', where, e.func + ' extra')
    rt = d.get_type()
    rt = refsub.live_subst(rt, m) if m else rt
    return project_read(ctx, rt, d.get_type())


def t_lambda(ctx, e, sc, where):
    s2 = Scope(sc)
    for p in e.params: s2.names[p.name] = p
    bt = typeof(ctx, e.body, s2, where + '/' + e.name, e.ret_type) if e.body is not None else None
    if e.ret_type is not None and e.ret_type != ctx.void:
        assignable(ctx, bt, e.ret_type, where + '/' + e.name, 'ret', e.body)
    return e.signature


def t_cond(ctx, e, sc, where, expected):
    ct = typeof(ctx, e.cond, sc, where)
    s_true, s_false = Scope(sc), Scope(sc)
    if isinstance(e.cond, ast.Is) and isinstance(e.cond.lexpr, ast.Variable):
        (s_false if e.cond.operator.is_not else s_true).casts[e.cond.lexpr.name] = e.cond.rexpr
    exp = expected if expected is not None else e.inferred_type
    for br, s in ((e.true_branch, s_true), (e.false_branch, s_false)):
        bt = typeof(ctx, br, s, where, exp)
        assignable(ctx, bt, exp, where, 'branch', br)
        assignable(ctx, bt, e.inferred_type, where, 'branch-vs-recorded', br)
    return e.inferred_type


def t_block(ctx, e, sc, where, expected):
    s2 = Scope(sc)
    t = ctx.void
    for i, st in enumerate(e.body):
        t = typeof(ctx, st, s2, where, expected if i == len(e.body) - 1 else None)
    return t


def t_assign(ctx, e, sc, where):
    if e.receiver is None:
        d = sc.lookup(e.name)
        if d is None:
            ctx.report('unresolved-assign', where, e.name); typeof(ctx, e.expr, sc, where); return ctx.void
        if getattr(d, 'is_final', True):
            ctx.report('assign-final', where, e.name)
        tt = decl_type(d)
    else:
        rt = typeof(ctx, e.receiver, sc, where)
        tt = None
        if rt is not BOTTOM and rt is not None:
            r = class_of(ctx, rt)
            if r:
                fm = find_member(ctx, r[0], r[1], e.name, 'field')
                if fm is None:
                    ctx.report('unresolved-assign-field', where, '%s.%s' % (rt, e.name))
                else:
                    if fm[0].is_final: ctx.report('assign-final-field', where, e.name)
                    tt = refsub.live_subst(fm[0].get_type(), fm[1]) if fm[1] else fm[0].get_type()
    assignable(ctx, typeof(ctx, e.expr, sc, where, tt), tt, where, 'assign', e.expr)
    return ctx.void


def same_type(ctx, a, b):
    if a is BOTTOM or a is None or b is None: return None
    try:
        return snap(a) == snap(b) or (sub(ctx, a, b) and sub(ctx, b, a))
    except Exception:
        return None


def check_var(ctx, v, sc, where):
    if v.var_type is None and ctx.infer:
        it = typeof(ctx, v.expr, sc, where + '/' + v.name, None)
        INFERRED[id(v)] = it
        ctx.stats['erased_var'] += 1
        eq = same_type(ctx, it, v.inferred_type)
        ctx.stats['erased_var_infer_%s' % ('eq' if eq else ('unknown' if eq is None else 'DIFF'))] += 1
        if eq is False and len(ctx.diffs) < 5: ctx.diffs.append((where + '/' + v.name, str(it), str(v.inferred_type)))
        return
    t = v.var_type if v.var_type is not None else v.inferred_type
    it = typeof(ctx, v.expr, sc, where + '/' + v.name, t)
    assignable(ctx, it, t, where + '/' + v.name, 'init', v.expr)


def check_func(ctx, f, sc, where):
    s2 = Scope(sc)
    for p in f.params:
        if p.default is not None:
            assignable(ctx, typeof(ctx, p.default, sc, where, p.get_type()), p.get_type(), where, 'default', p.default)
        s2.names[p.name] = p
    if f.body is None: return
    if f.ret_type is None and ctx.infer:
        bt = typeof(ctx, f.body, s2, where, None)
        INFERRED[id(f)] = bt
        ctx.stats['erased_ret'] += 1
        eq = same_type(ctx, bt, f.inferred_type)
        ctx.stats['erased_ret_infer_%s' % ('eq' if eq else ('unknown' if eq is None else 'DIFF'))] += 1
        if eq is False and len(ctx.diffs) < 5: ctx.diffs.append((where, str(bt), str(f.inferred_type)))
        return
    rt = f.get_type()
    bt = typeof(ctx, f.body, s2, where, rt)
    if rt != ctx.void and not is_builtin_name(rt, 'Unit'):
        assignable(ctx, bt, rt, where, 'ret', f.body)


def check_class(ctx, c, gsc):
    sc = Scope(gsc)
    for f in c.fields: sc.names[f.name] = f
    for fn in c.functions: sc.names[fn.name] = fn
    where = 'global/' + c.name
    if c.superclasses:
        s = c.superclasses[0]
        r = class_of(ctx, s.class_type)
        if r is not None:
            sd, m = r
            if sd.is_final: ctx.report('final-super', where, sd.name)
            check_targs(ctx, sd.type_parameters, m, where, 'super')
            if s.args is not None and not sd.is_interface():
                if len(s.args) != len(sd.fields):
                    ctx.report('super-arity', where, sd.name)
                else:
                    for a, f in zip(s.args, sd.fields):
                        ft = refsub.live_subst(f.get_type(), m) if m else f.get_type()
                        assignable(ctx, typeof(ctx, a, gsc, where, ft), ft, where, 'super-arg', a)
    for fn in c.functions:
        check_func(ctx, fn, sc, where + '/' + fn.name)


def check_program(p, infer=False):
    INFERRED.clear()
    ctx = Ctx(p)
    ctx.infer = infer
    gsc = Scope()
    for n, d in ctx.decls.items(): gsc.names[n] = d
    for n, d in ctx.decls.items():
        if isinstance(d, ast.VariableDeclaration): check_var(ctx, d, gsc, 'global')
        elif isinstance(d, ast.FunctionDeclaration): check_func(ctx, d, gsc, 'global/' + n)
        elif isinstance(d, ast.ClassDeclaration): check_class(ctx, d, gsc)
    return ctx
