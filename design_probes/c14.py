import sys
sys.path.insert(0,'/repo')
from src.compilers.java import JavaCompiler
from src.compilers.kotlin import KotlinCompiler
from src.compilers.groovy import GroovyCompiler
from src.compilers.scala import ScalaCompiler
d='/tmp/tmpab_12cd'
java_out=f"""{d}/src/alpha/Main.java:12: error: incompatible types: String cannot be converted to Integer
        Integer x = "a";
                    ^
{d}/src/alpha/Main.java:40: error: cannot find symbol
    foo.bar();
       ^
  symbol:   method bar()
  location: variable foo of type Foo
{d}/src/beta/Main.java:7: warning: [removal] Long(long) in Long has been deprecated and marked for removal
        Number n = (Number) new Long(5);
                            ^
{d}/src/gamma/Main.java:3: error: type argument ? extends Function1<Number,Number> is not within bounds of type-variable R
  Function0<? extends Foo> f = null;
            ^
Note: Some input files use unchecked or unsafe operations.
Note: Recompile with -Xlint:unchecked for details.
3 errors
1 warning
"""
c=JavaCompiler(d+'/src'); failed,m=c.analyze_compiler_output(java_out); print('java',dict(failed) if failed is not None else None,c.crash_msg is not None)
java_fq=java_out.replace('String cannot be converted to Integer','java.lang.String cannot be converted to Integer')
c=JavaCompiler(d+'/src'); failed,m=c.analyze_compiler_output(java_fq); print('java fq name -> crash?', c.crash_msg is not None)
kot_out=f"""warning: some JAR files in the classpath have the Kotlin Runtime library bundled into them.
{d}/src/alpha/program.kt:3:18: error: type mismatch: inferred type is String but Int was expected
    val x: Int = "a"
                 ^
{d}/src/alpha/program.kt:9:5: warning: variable 'y' is never used
    val y = 1
        ^
{d}/src/beta/program.kt:10:1: error: unresolved reference: foo
foo()
^
"""
c=KotlinCompiler(d+'/src'); failed,m=c.analyze_compiler_output(kot_out); print('kotlin',dict(failed),c.crash_msg is not None)
gr_out=f"""org.codehaus.groovy.control.MultipleCompilationErrorsException: startup failed:
{d}/src/alpha/Main.groovy: 12: [Static type checking] - Cannot assign value of type java.lang.String to variable of type java.lang.Integer
 @ line 12, column 21.
           Integer x = "a"
                       ^

{d}/src/beta/Main.groovy: 3: [Static type checking] - Cannot find matching method Foo#bar()
 @ line 3, column 5.
       foo.bar()
       ^

{d}/src/alpha/Main.groovy: 30: [Static type checking] - Incompatible generic argument types.
 @ line 30, column 9.
           x = y
           ^

3 errors
"""
c=GroovyCompiler(d+'/src'); failed,m=c.analyze_compiler_output(gr_out); print('groovy',{k:len(v) for k,v in failed.items()},c.crash_msg is not None)
sc_out=f"""-- [E007] Type Mismatch Error: {d}/src/alpha/Main.scala:3:15 ------------------
3 |  val x: Int = "a"
  |               ^^^
  |               Found:    ("a" : String)
  |               Required: Int
  |
  | longer explanation available when compiling with `-explain`
-- Warning: {d}/src/beta/Main.scala:5:3 ------------------
5 |  foo
  |  ^^^
  |  A pure expression does nothing in statement position
-- [E008] Not Found Error: {d}/src/gamma/Main.scala:8:2 ------------------
8 |  bar(-5)
  |  ^^^
  |  Not found: bar
2 errors found
"""
c=ScalaCompiler(d+'/src'); failed,m=c.analyze_compiler_output(sc_out); print('scala',dict(failed),c.crash_msg is not None)
