# scratch prototype: in-run monitors for C07/C08/C09/C10 (design probe)
import sys, random, itertools, collections, time, traceback
random.seed(0)
sys.path.insert(0, '/repo'); sys.path.insert(0, '/tmp/scratch/proto')
from src import utils
from src.ir import node as _n, types as tp, type_utils as tu, ast
from src.generators.generator import Generator
from src.generators import generator as G
from src.transformations.type_erasure import TypeErasure
from src.transformations.type_overwriting import TypeOverwriting
import refsub, refcheck   # refcheck patches refsub.snap (builtins by class)
from refsub import Unknown

lang = sys.argv[1]
utils.random.remove_reserved_words(lang)
stats = collections.Counter(); ex = {}


def note(cls, detail):
    stats[cls] += 1
    ex.setdefault(cls, []).append(detail) if len(ex.get(cls, [])) < 3 else None


def sub(a, b):
    if isinstance(a, tp.Builtin) and isinstance(b, tp.Builtin) and type(a) is type(b): return True
    try:
        return refsub.sub(a, b)
    except Unknown:
        return None
    except RecursionError:
        return None


def deep(t, d=0):
    """deep structural snapshot incl. constructor params and supertypes (for mutation detection)"""
    if t is None: return None
    if d > 6: return ('...',)
    if isinstance(t, tp.WildCardType): return ('W', t.variance.value, deep(t.bound, d + 1))
    if isinstance(t, tp.TypeParameter): return ('V', t.name, t.variance.value, deep(t.bound, d + 1))
    if isinstance(t, tp.ParameterizedType):
        return ('P', t.name, tuple(deep(a, d + 1) for a in t.type_args),
                tuple(deep(p, d + 1) for p in t.t_constructor.type_parameters),
                tuple(deep(s, d + 1) for s in t.supertypes))
    if isinstance(t, tp.TypeConstructor):
        return ('TC', t.name, tuple(deep(p, d + 1) for p in t.type_parameters), tuple(deep(s, d + 1) for s in t.supertypes))
    if isinstance(t, tp.Builtin): return ('B', type(t).__name__, getattr(t, 'primitive', None))
    if isinstance(t, tp.SimpleClassifier): return ('C', t.name, tuple(deep(s, d + 1) for s in t.supertypes))
    return ('?', type(t).__name__)


def has_tv(t):
    return refcheck.has_tvars(t)

# ---- C07: TypeConstructor.new and substitute_type
orig_new = tp.TypeConstructor.new
def new(self, type_args):
    before = (deep(self), tuple(deep(a) for a in type_args))
    r = orig_new(self, type_args)
    after = (deep(self), tuple(deep(a) for a in type_args))
    stats['C07 new calls'] += 1
    if before != after: note('C07 new MUTATES input', str(self))
    if not any(has_tv(a) for a in type_args):
        if [refsub.snap(a) for a in r.type_args] != [refsub.snap(a) for a in type_args]:
            note('C07 new wrong args', str(r))
        m = {p.name: a for p, a in zip(self.type_parameters, type_args)}
        exp = [refsub.snap(refsub.live_subst(s, m)) for s in self.supertypes]
        got = [refsub.snap(s) for s in r.supertypes]
        if exp != got:
            note('C07 new supertypes not substituted', '%s: exp %s got %s' % (r, exp, got))
        for s in r.supertypes:
            if has_tv(s): note('C07 new supertypes keep type vars', '%s : %s' % (r, s))
    return r
tp.TypeConstructor.new = new

orig_subst = tp.substitute_type
def substitute_type(t, type_map):
    before = (deep(t), tuple((deep(k), deep(v)) for k, v in type_map.items()))
    r = orig_subst(t, type_map)
    after = (deep(t), tuple((deep(k), deep(v)) for k, v in type_map.items()))
    stats['C07 subst calls'] += 1
    if before != after: note('C07 subst MUTATES input', str(t))
    if not type_map and refsub.snap(r) != refsub.snap(t): note('C07 subst empty map changes type', str(t))
    try:
        exp = refsub.snap(refsub.live_subst(t, {k.name: v for k, v in type_map.items()}))
        if exp != refsub.snap(r):
            note('C07 subst differs from reference', '%s %s -> %s (exp %s)' % (t, {str(k): str(v) for k, v in type_map.items()}, r, exp))
    except Exception as e:
        stats['C07 ref exc'] += 1
    return r
tp.substitute_type = substitute_type
for mod in (tu, G, ast):
    if hasattr(mod, 'tp') and mod.tp is tp: pass
# modules call tp.substitute_type via the module attribute, so patching tp is enough (ast uses types.substitute_type)

# ---- C09 find_subtypes
orig_fs = tu.find_subtypes
def find_subtypes(etype, types, include_self=False, bound=None, concrete_only=False, ignore_variance=False):
    r = orig_fs(etype, types, include_self, bound, concrete_only, ignore_variance)
    stats['C09 find_subtypes calls'] += 1
    for t in r:
        if concrete_only and isinstance(t, tp.TypeConstructor): note('C09 bare constructor returned', str(t))
        if isinstance(t, tp.TypeConstructor) or isinstance(etype, tp.TypeConstructor): continue
        if ignore_variance: continue
        ok = sub(t, etype)
        if ok is False:
            note('C09 result not a subtype', '%s  NOT<:  %s' % (t, etype))
        elif ok is None: stats['C09 undetermined'] += 1
    if include_self and etype not in r and not isinstance(etype, tp.TypeConstructor): note('C09 self missing', str(etype))
    return r
tu.find_subtypes = find_subtypes

orig_fi = tu.find_irrelevant_type
def find_irrelevant_type(etype, types, factory):
    r = orig_fi(etype, types, factory)
    stats['C09 find_irrelevant calls'] += 1
    if r is None: return r
    q = etype.bound if isinstance(etype, tp.TypeParameter) and etype.bound is not None else etype
    if isinstance(q, tp.TypeParameter): return r
    a, b = sub(r, q), sub(q, r)
    if a or b: note('C09 irrelevant type is related', '%s vs %s (sub=%s super=%s)' % (r, q, a, b))
    return r
tu.find_irrelevant_type = find_irrelevant_type

# ---- C08 instantiate_type_constructor
orig_itc = tu.instantiate_type_constructor
def instantiate_type_constructor(type_constructor, types, *a, **k):
    r, m = orig_itc(type_constructor, types, *a, **k)
    stats['C08 instantiate calls'] += 1
    params = type_constructor.type_parameters
    if len(r.type_args) != len(params): note('C08 arity', str(r))
    mm = {p.name: x for p, x in zip(params, r.type_args)}
    for p, x in zip(params, r.type_args):
        y = x
        if isinstance(x, tp.WildCardType):
            if x.bound is None: continue
            if x.variance.value == 2:
                continue
            y = x.bound
        if getattr(y, 'primitive', False): note('C08 primitive type argument', '%s in %s' % (y, r))
        if isinstance(y, tp.TypeConstructor): note('C08 bare constructor as argument', str(r))
        if p.bound is not None:
            b = refsub.live_subst(p.bound, mm)
            ok = sub(y, b)
            if ok is False: note('C08 argument outside bound', '%s: %s := %s, bound %s' % (r, p.name, x, b))
            elif ok is None: stats['C08 undetermined'] += 1
    return r, m
tu.instantiate_type_constructor = instantiate_type_constructor

# ---- C10 unify_types (same_type mode only)
orig_un = tu.unify_types
depth = [0]
def unify_types(t1, t2, factory, same_type=True):
    depth[0] += 1
    try:
        r = orig_un(t1, t2, factory, same_type)
    finally:
        depth[0] -= 1
    if depth[0] == 0 and r and same_type:
        stats['C10 unify nonempty'] += 1
        try:
            back = refsub.live_subst(t2, {k.name: v for k, v in r.items()})
            if refsub.snap(back) != refsub.snap(t1):
                # allowed: open variables / wildcard stripping; classify
                if not has_tv(back):
                    note('C10 substituting back differs', 't1=%s t2=%s sigma=%s back=%s' % (t1, t2, {str(k): str(v) for k, v in r.items()}, back))
                else: stats['C10 open vars'] += 1
            for k_, v_ in r.items():
                if k_.bound is not None and not has_tv(k_.bound):
                    ok = sub(v_, k_.bound)
                    if ok is False: note('C10 assigned type outside bound', '%s := %s' % (k_, v_))
        except Exception as e:
            stats['C10 ref exc ' + type(e).__name__] += 1
    return r
tu.unify_types = unify_types

t0 = time.time()
for s in range(int(sys.argv[2]), int(sys.argv[3])):
    c = itertools.count(1)
    _n.Node.__hash__ = (lambda c: (lambda self: self.__dict__.get("_vh") or self.__dict__.setdefault("_vh", next(c))))(c)
    utils.random.r.seed(s); utils.random.reset_word_pool()
    try:
        p = Generator(language=lang).generate()
        te = TypeErasure(p, lang, None, {}); te.transform()
        to = TypeOverwriting(p, lang, None, {}); to.transform()
    except Exception as e:
        fr = traceback.extract_tb(e.__traceback__)[-1]
        stats['EXC %s %s:%d' % (type(e).__name__, fr.name, fr.lineno)] += 1
print(lang, 'time', round(time.time() - t0, 1))
for k, v in sorted(stats.items()): print(' ', v, k)
for k, v in ex.items():
    for e in v[:2]: print('   EX', k, '|', str(e)[:330])
