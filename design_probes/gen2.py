import sys, random, hashlib, time, os
random.seed(0)
sys.path.insert(0, '/repo')
from src import utils
import itertools
from src.ir import node as _n
_ctr=itertools.count(1)
def _h(self):
    try:
        return self.__dict__['_vh']
    except KeyError:
        v=self.__dict__['_vh']=next(_ctr)
        return v
_n.Node.__hash__=_h
from src.generators.generator import Generator
from src.translators.java import JavaTranslator
from src.translators.kotlin import KotlinTranslator
from src.translators.groovy import GroovyTranslator
from src.translators.scala import ScalaTranslator
TR={'java':JavaTranslator,'kotlin':KotlinTranslator,'groovy':GroovyTranslator,'scala':ScalaTranslator}
lang=sys.argv[1]; seeds=range(int(sys.argv[2]), int(sys.argv[3]))
utils.random.remove_reserved_words(lang)
for s in seeds:
    utils.random.r.seed(s)
    utils.random.reset_word_pool()
    t0=time.time()
    try:
        p=Generator(language=lang).generate()
        tr=TR[lang]('src.pkg', {})
        txt=utils.translate_program(tr,p)
        print(s, hashlib.sha1(txt.encode()).hexdigest()[:12], len(txt), round(time.time()-t0,2))
    except Exception as e:
        print(s, 'EXC', type(e).__name__, str(e)[:80])
