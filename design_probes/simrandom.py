# scratch prototype: choice tape replacing the RandomUtils API (design probe)
import sys, random as _pyrandom, string, hashlib, json, os, itertools


class Diverged(Exception):
    pass


class Hang(Exception):
    pass


class SimRandom:
    """Replaces the 9 public methods of src.utils.RandomUtils on the live instance."""

    def __init__(self, ru, seed, tape=None, strict=True, buggify=True):
        self.ru = ru
        self.prng = _pyrandom.Random(seed)
        self.tape = []            # realised entries (site, op, arity, outcome)
        self.src = tape           # entries to replay or None
        self.pos = 0
        self.strict = strict
        self.sites = {}
        self.bias = {}
        self.buggify = buggify
        self.bprng = _pyrandom.Random(seed ^ 0x5bd1e995)
        for name in ('bool', 'word', 'integer', 'char', 'choice', 'sample', 'str', 'caps', 'range'):
            setattr(ru, name, getattr(self, name))
        ru.r = self   # catches r.seed() from gen_program_mul

    # -- core draw -------------------------------------------------------
    def _site(self, depth=2):
        f = sys._getframe(depth)
        return (os.path.basename(f.f_code.co_filename), f.f_lineno)

    def _draw(self, op, arity, site, weights=None):
        if arity <= 0:
            raise Hang('%s with no legal outcome at %s' % (op, site))
        if len(self.tape) > 60000:
            raise Hang('draw budget exhausted')
        if self.src is not None and self.pos < len(self.src):
            s, o, a, out = self.src[self.pos]
            if (o != op or a != arity) and self.strict:
                raise Diverged('pos %d: tape %s/%s vs run %s/%s at %s' % (self.pos, o, a, op, arity, site))
            if o == op and a == arity:
                self.pos += 1
                self.tape.append((site, op, arity, out))
                return out
            self.src = None  # lenient: continue from prng
        if weights is not None:
            out = 0 if self.prng.random() < weights else 1
        else:
            out = self._biased(site, arity)
        self.pos += 1
        self.tape.append((site, op, arity, out))
        return out

    def _biased(self, site, arity):
        if self.buggify:
            b = self.bias.get(site)
            if b is None:
                b = self.bias[site] = self.bprng.choice(['none'] * 30 + ['first', 'last'])
            if b == 'first' and self.prng.random() < 0.5: return 0
            if b == 'last' and self.prng.random() < 0.5: return arity - 1
        return self.prng.randrange(arity)

    # -- RandomUtils API ---------------------------------------------------
    def bool(self, prob=0.5):
        site = self._site()
        if prob <= 0:
            return False      # deterministic, not on the tape
        if prob >= 1:
            return True
        p = prob
        if self.buggify:
            b = self.bias.get(site)
            if b is None:
                b = self.bias[site] = self.bprng.choice([None] * 12 + [0.15, 0.85])
            if b is not None: p = b
        return self._draw('bool', 2, site, weights=p) == 0

    def word(self):
        words = sorted(self.ru.WORDS)        # sorted: independent of set order
        i = self._draw('word', len(words), self._site())
        w = words[i]
        self.ru.WORDS.remove(w)
        return w

    def integer(self, min_int=0, max_int=10):
        return min_int + self._draw('integer', max_int - min_int + 1, self._site())

    def char(self):
        alpha = string.ascii_letters + string.digits
        return alpha[self._draw('char', len(alpha), self._site())]

    def choice(self, choices):
        choices = list(choices) if not isinstance(choices, (list, tuple, str)) else choices
        return choices[self._draw('choice', len(choices), self._site())]

    def sample(self, choices, k=None):
        site = self._site()
        if not k:
            k = self._draw('integer', len(choices) + 1, site)
        pool = list(choices); out = []
        for _ in range(k):
            out.append(pool.pop(self._draw('sample', len(pool), site)))
        return out

    def str(self, length=5):
        site = self._site()
        pool = list(string.ascii_letters + string.digits); out = []
        for _ in range(length):
            out.append(pool.pop(self._draw('sample', len(pool), site)))
        return ''.join(out)

    def caps(self, length=1, blacklist=None):
        blacklist = blacklist if blacklist is not None else []
        site = self._site()
        if length == 1:
            legal = [c for c in string.ascii_uppercase if c not in blacklist]
            return legal[self._draw('caps', len(legal), site)]
        for _ in range(10000):
            pool = list(string.ascii_uppercase); out = []
            for _ in range(length):
                out.append(pool.pop(self._draw('sample', len(pool), site)))
            res = ''.join(out)
            if res not in blacklist:
                return res
        raise Hang('caps')

    def range(self, from_value, to_value):
        return range(0, from_value + self._draw('integer', to_value - from_value + 1, self._site()))

    # -- the inner Random object's API used by the driver -------------------
    def seed(self, *a):
        pass

    def digest(self):
        h = hashlib.sha1()
        for site, op, arity, out in self.tape:
            h.update(('%s:%d %s %d %d;' % (site[0], site[1], op, arity, out)).encode())
        return h.hexdigest()[:16]
