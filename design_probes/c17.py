import sys, random, itertools, collections, time
random.seed(0)
sys.path.insert(0, '/repo')
from src import utils
from src.ir import node as _n, ast, types as tp
from src.generators.generator import Generator
from src.generators.config import cfg
lang=sys.argv[1]
mode=sys.argv[4]
if mode=='usv': cfg.dis.use_site_variance=True
if mode=='contra': cfg.dis.use_site_contravariance=True
if mode=='bound': cfg.prob.bounded_type_parameters=0
if mode=='pf': cfg.prob.parameterized_functions=0
utils.random.remove_reserved_words(lang)
def walk_types(t, f, seen):
    if t is None or id(t) in seen: return
    seen.add(id(t))
    f(t)
    for a in getattr(t,'type_args',[]) or []: walk_types(a,f,seen)
    if isinstance(t,(tp.WildCardType,tp.TypeParameter)): walk_types(t.bound,f,seen)
    tc=getattr(t,'t_constructor',None)
    if tc is not None:
        for p in tc.type_parameters: walk_types(p,f,seen)
    for s in getattr(t,'supertypes',[]) or []: walk_types(s,f,seen)
def node_types(n):
    out=[]
    for k,v in vars(n).items():
        if isinstance(v,tp.Type): out.append((k,v))
        elif isinstance(v,list):
            for x in v:
                if isinstance(x,tp.Type): out.append((k,x))
    return out
def walk(n, f):
    f(n)
    for c in n.children():
        if isinstance(c, tp.Type):
            continue
        walk(c,f)
stats=collections.Counter(); ex=[]
t0=time.time()
for s in range(int(sys.argv[2]), int(sys.argv[3])):
    c=itertools.count(1)
    _n.Node.__hash__=(lambda c: (lambda self: self.__dict__.get("_vh") or self.__dict__.setdefault("_vh", next(c))))(c)
    utils.random.r.seed(s); utils.random.reset_word_pool()
    try:
        p=Generator(language=lang).generate()
    except Exception as e:
        stats['exc']+=1; continue
    found=collections.Counter()
    def onnode(n):
        for k,t in node_types(n):
            def ont(t):
                if isinstance(t,tp.WildCardType):
                    found['wild']+=1
                    if t.variance.is_contravariant(): found['contra']+=1
                if isinstance(t,tp.TypeParameter) and t.bound is not None: found['bounded:'+type(n).__name__]+=1
            walk_types(t,ont,set())
        if isinstance(n,ast.FunctionDeclaration) and n.type_parameters: found['pf']+=1
        if isinstance(n,(ast.ClassDeclaration,ast.FunctionDeclaration)):
            for tpar in n.type_parameters:
                if tpar.bound is not None: found['decl_bound']+=1
                if not tpar.variance.is_invariant(): found['variant:'+type(n).__name__]+=1
    for d in p.declarations: walk(d,onnode)
    for k in found: stats['prog_with_'+k]+=1
    stats['n']+=1
print(lang, mode, dict(stats), round(time.time()-t0,1))
