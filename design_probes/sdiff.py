import sys, random, itertools, collections, pickle
random.seed(0)
sys.path.insert(0,'/repo'); sys.path.insert(0,'/tmp/scratch/proto')
from src import utils
from src.ir import node as _n, ast, types as tp
from src.ir.context import Context
from src.generators.generator import Generator
from src.transformations.type_erasure import TypeErasure
from src.transformations.type_overwriting import TypeOverwriting
lang=sys.argv[1]
utils.random.remove_reserved_words(lang)
def dump(o, path, out, seen):
    """flatten object graph into {path: atom} following program declarations"""
    if isinstance(o,(str,int,float,bool,type(None))): out[path]=o; return
    if isinstance(o, tp.Type):
        out[path]=str(o)+'|'+type(o).__name__+'|cit='+str(getattr(o,'_can_infer_type_args',None)); return
    if isinstance(o,(list,tuple)):
        out[path+'#len']=len(o)
        for i,x in enumerate(o): dump(x,path+'[%d]'%i,out,seen)
        return
    if isinstance(o,dict):
        for k,v in o.items(): dump(v,path+'{%s}'%str(k),out,seen)
        return
    if id(o) in seen: out[path]='<ref>'; return
    seen.add(id(o))
    if isinstance(o,(ast.Node, tp.Variance)) or isinstance(o,ast.Operator):
        out[path+'#cls']=type(o).__name__
        for k,v in vars(o).items():
            if k=='_vh': continue
            dump(v,path+'.'+k,out,seen)
        return
    out[path]='<'+type(o).__name__+'>'
def snapshot(p):
    out={}
    decls=p.context.get_declarations(('global',),only_current=True)
    for n,d in decls.items(): dump(d,n,out,set())
    return out
import re
def norm(path):
    return re.sub(r'\[\d+\]','[]',re.sub(r'^[A-Za-z_]+','ROOT',path)).split('.')[-1]
stats=collections.Counter(); ex={}
for s in range(int(sys.argv[2]),int(sys.argv[3])):
    c=itertools.count(1)
    _n.Node.__hash__=(lambda c: (lambda self: self.__dict__.get("_vh") or self.__dict__.setdefault("_vh", next(c))))(c)
    utils.random.r.seed(s); utils.random.reset_word_pool()
    try:
        p=Generator(language=lang).generate()
    except Exception: continue
    a=snapshot(p)
    te=TypeErasure(p,lang,None,{}); te.transform()
    b=snapshot(p)
    to=TypeOverwriting(p,lang,None,{}); to.transform()
    c2=snapshot(p)
    for tag,x,y,flag in (('erase',a,b,te.is_transformed),('overwrite',b,c2,to.is_transformed)):
        keys=set(x)|set(y); nchg=0
        for k in keys:
            if x.get(k,'<absent>')!=y.get(k,'<absent>'):
                nchg+=1
                cls=(tag, norm(k), 'to None' if y.get(k) is None and k in y else ('absent' if k not in y else 'changed'))
                stats[cls]+=1; ex.setdefault(cls,(s,k[-90:],str(x.get(k))[:60],str(y.get(k))[:60]))
        stats[(tag,'programs',flag, 'nchg=%s'%(nchg if nchg<4 else '4+'))]+=1
for k,v in sorted(stats.items(), key=lambda kv:str(kv[0])): print(v,k,ex.get(k,''))
