import sys, random, itertools, collections
random.seed(0)
sys.path.insert(0,'/repo')
from src import utils
from src.ir import node as _n, ast, types as tp, type_utils as tu
from src.generators.generator import Generator
from src.generators import generator as G
lang=sys.argv[1]
utils.random.remove_reserved_words(lang)
stats=collections.Counter()
orig=G.Generator.gen_conditional
rec=[]
def w(self, etype, only_leaves=False, subtype=True):
    r=orig(self, etype, only_leaves, subtype)
    rec.append((etype, r))
    return r
G.Generator.gen_conditional=w
# capture branch types via wrapping generate_expr calls inside gen_conditional is complex; instead recompute using find in orig code:
import functools
orig_choice=utils.random.choice
for s in range(int(sys.argv[2]),int(sys.argv[3])):
    c=itertools.count(1)
    _n.Node.__hash__=(lambda c: (lambda self: self.__dict__.get("_vh") or self.__dict__.setdefault("_vh", next(c))))(c)
    utils.random.r.seed(s); utils.random.reset_word_pool(); rec.clear()
    try:
        g=Generator(language=lang); p=g.generate()
    except Exception as e:
        stats['exc']+=1; continue
    for etype, cond in rec:
        stats['conds']+=1
        ct=cond.inferred_type
        for br,name in ((cond.true_branch,'true'),(cond.false_branch,'false')):
            try:
                bt=tu.get_type_hint(br, p.context, ('global',), p.bt_factory, [])
            except Exception as e:
                stats['hint exc']+=1; continue
            if bt is None: stats['hint none']+=1; continue
            try:
                ok = bt.is_subtype(ct)
            except Exception: stats['sub exc']+=1; continue
            if not ok:
                stats['branch not <: cond type']+=1
                if stats['printed']<6:
                    stats['printed']+=1; print('seed',s,'expected',etype,'| cond type',ct,'|',name,'branch',bt)
print(dict(stats))
