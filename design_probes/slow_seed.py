import sys, signal, traceback, time
sys.path.insert(0,'/tmp/scratch/proto')
import tape_run, simrandom
t0=time.time()
def h(sig,frm):
    st=traceback.extract_stack(frm)
    print('after',round(time.time()-t0),'s; frames:',len(st))
    for fr in st[-14:]: print('   ',fr.filename.split('/')[-1],fr.lineno,fr.name)
    cur=[o for o in __import__('gc').get_objects() if isinstance(o,simrandom.SimRandom)]
    print('draws so far',len(cur[-1].tape) if cur else None)
    from src.generators.config import cfg
    print('depth cfg',cfg.limits.max_depth)
    sys.exit(0)
signal.signal(signal.SIGALRM,h); signal.alarm(45)
r=tape_run.one_run(int(sys.argv[1]))
print('finished',r['lang'],r['ndraws'],r['err'],round(time.time()-t0,1))
