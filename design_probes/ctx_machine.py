# scratch prototype: Context vs reference scoped-map model (design probe)
import sys, pickle, collections, os
sys.path.insert(0, '/repo')
from hypothesis import settings, seed, strategies as st, HealthCheck
from hypothesis.stateful import RuleBasedStateMachine, rule, invariant, run_state_machine_as_test
from src.ir import ast, types as tp, kotlin_types as kt
from src.ir.context import Context, get_decl

KINDS = ['types', 'funcs', 'lambdas', 'vars', 'classes']
DECL_KINDS = ('funcs', 'vars', 'classes')
SEGS = ['a', 'b', 'C', 'D']
NAMESPACES = [('global',)] + [('global', x) for x in SEGS] + \
    [('global', x, y) for x in SEGS for y in SEGS if x != y][:8] + \
    [('global', 'a', 'b', 'C'), ('global', 'C', 'a', 'D')]
NAMES = {k: [k[0] + n for n in ('a', 'b', 'C', 'D', 'x')] for k in KINDS}
# funcs and classes use the segment names so that they create reachable namespaces
NAMES['funcs'] = ['a', 'b', 'fx']
NAMES['classes'] = ['C', 'D', 'Cx']
T = kt.Integer


def mk(kind, name, i):
    if kind == 'types': return tp.TypeParameter(name)
    if kind == 'funcs': return ast.FunctionDeclaration(name, [], T, None, ast.FunctionDeclaration.FUNCTION)
    if kind == 'lambdas': return ast.Lambda(name, [], T, None, None)
    if kind == 'vars': return ast.VariableDeclaration(name, ast.IntegerConstant(i, T), var_type=T)
    return ast.ClassDeclaration(name, [])


def key(v):
    return ('T', v.name) if isinstance(v, tp.TypeParameter) else id(v)


class M(RuleBasedStateMachine):
    def __init__(self):
        super().__init__()
        self.ctx = Context()
        self.model = {}          # ns -> kind -> dict
        self.rev = {}            # key -> ns
        self.vals = []           # all values ever created (for restart remap)
        self.i = 0
        self.removed = []

    def _ns(self, ns):
        if ns not in self.model:
            self.model[ns] = {k: {} for k in KINDS + ['decls']}
        return self.model[ns]

    @rule(kind=st.sampled_from(KINDS), ns=st.sampled_from(NAMESPACES), n=st.integers(0, 4))
    def add(self, kind, ns, n):
        name = NAMES[kind][n % len(NAMES[kind])]
        self.i += 1
        v = mk(kind, name, self.i)
        self.vals.append(v)
        getattr(self.ctx, 'add_' + kind[:-1] if kind != 'classes' else 'add_class')(ns, name, v)
        m = self._ns(ns)
        m[kind][name] = v
        if kind in DECL_KINDS: m['decls'][name] = v
        self.rev[key(v)] = ns

    @rule(kind=st.sampled_from(KINDS), ns=st.sampled_from(NAMESPACES), n=st.integers(0, 4))
    def remove(self, kind, ns, n):
        name = NAMES[kind][n % len(NAMES[kind])]
        getattr(self.ctx, 'remove_' + kind[:-1] if kind != 'classes' else 'remove_class')(ns, name)
        if ns in self.model:
            m = self.model[ns]
            for k in ([kind, 'decls'] if kind in DECL_KINDS else [kind]):
                if name in m[k]:
                    v = m[k].pop(name)
                    self.rev.pop(key(v), None)
                    self.removed.append(v)

    @rule()
    def restart(self):
        ctx, vals = pickle.loads(pickle.dumps((self.ctx, self.vals)))
        remap = {id(o): n for o, n in zip(self.vals, vals)}
        def r(v): return v if isinstance(v, tp.TypeParameter) else remap[id(v)]
        for ns, m in self.model.items():
            for k in m:
                m[k] = {name: r(v) for name, v in m[k].items()}
        self.rev = {(kk if isinstance(kk, tuple) else id(remap[kk])): ns for kk, ns in self.rev.items()}
        self.removed = [r(v) for v in self.removed]
        self.ctx, self.vals = ctx, vals

    # ---- reference queries
    def m_current(self, ns, kind):
        return dict(self.model.get(ns, {}).get(kind, {}))

    def m_path(self, ns, kind):
        out = {}
        for i in range(1, len(ns) + 1):
            out.update(self.model.get(ns[:i], {}).get(kind, {}))
        return out

    def m_reachable(self):
        seen = []; stack = [('global',)]
        while stack:
            n = stack.pop(); seen.append(n)
            m = self.model.get(n, {})
            for name in list(m.get('funcs', {})) + list(m.get('classes', {})):
                stack.append(n + (name,))
        return seen

    @invariant()
    def check(self):
        getters = {'types': self.ctx.get_types, 'funcs': self.ctx.get_funcs, 'lambdas': self.ctx.get_lambdas,
                   'vars': self.ctx.get_vars, 'classes': self.ctx.get_classes, 'decls': self.ctx.get_declarations}
        reach = self.m_reachable()
        for ns in NAMESPACES:
            for kind, g in getters.items():
                cur = g(ns, only_current=True)
                assert dict(cur) == self.m_current(ns, kind), ('current', ns, kind)
                assert list(cur) == list(self.m_current(ns, kind)), ('order', ns, kind)
                pth = g(ns)
                assert dict(pth) == self.m_path(ns, kind), ('path', ns, kind)
                gl = g(ns, glob=True)
                allowed = collections.defaultdict(list)
                for r_ in reach:
                    for name, v in self.model.get(r_, {}).get(kind, {}).items():
                        allowed[name].append(v)
                assert set(gl) == set(allowed), ('glob-names', ns, kind, set(gl) ^ set(allowed))
                for name, v in gl.items():
                    assert any(v is a or v == a for a in allowed[name]), ('glob-value', ns, kind, name)
            for kind in DECL_KINDS:
                for name in NAMES[kind]:
                    exp = self.model.get(ns, {}).get('decls', {}).get(name)
                    assert self.ctx.get_decl(ns, name) is exp, ('get_decl', ns, name)
                    # walk outwards
                    want = None
                    n2 = ns
                    while len(n2):
                        d = self.model.get(n2, {}).get('decls', {}).get(name)
                        if d is not None:
                            want = (n2, d); break
                        n2 = n2[:-1]
                    got = get_decl(self.ctx, ns, name)
                    assert (got is None and want is None) or (got is not None and want is not None and got[0] == want[0] and got[1] is want[1]), ('lookup', ns, name)
        for ns, m in self.model.items():
            for kind in KINDS:
                for name, v in m[kind].items():
                    assert self.ctx.get_namespace(v) == self.rev.get(key(v)), ('reverse', ns, kind, name)
        for v in self.removed:
            assert self.ctx.get_namespace(v) == self.rev.get(key(v)), ('reverse-removed', getattr(v, 'name', None))


if __name__ == '__main__':
    lo, hi = int(sys.argv[1]), int(sys.argv[2])
    fails = 0
    for sd in range(lo, hi):
        try:
            run_state_machine_as_test(seed(sd)(M), settings=settings(
                max_examples=int(sys.argv[3]), stateful_step_count=30, database=None, deadline=None,
                report_multiple_bugs=False, suppress_health_check=list(HealthCheck)))
        except Exception as e:
            fails += 1
            print('seed', sd, 'FAIL', str(e)[:300])
            notes = getattr(e, '__notes__', [])
            print('\n'.join(notes)[:1500])
    print('done', lo, hi, 'fails', fails)
