import sys, random, hashlib, time, os, traceback, collections, itertools
random.seed(0)
sys.path.insert(0, '/repo')
from src import utils
from src.ir import node as _n
from src.generators.generator import Generator
from src.transformations.type_erasure import TypeErasure
from src.transformations.type_overwriting import TypeOverwriting
from src.translators.java import JavaTranslator
from src.translators.kotlin import KotlinTranslator
from src.translators.groovy import GroovyTranslator
from src.translators.scala import ScalaTranslator
TR={'java':JavaTranslator,'kotlin':KotlinTranslator,'groovy':GroovyTranslator,'scala':ScalaTranslator}
lang=sys.argv[1]; seeds=range(int(sys.argv[2]), int(sys.argv[3]))
utils.random.remove_reserved_words(lang)
stats=collections.Counter(); times=collections.defaultdict(float)
for s in seeds:
    c=itertools.count(1)
    _n.Node.__hash__=(lambda c: (lambda self: self.__dict__.get("_vh") or self.__dict__.setdefault("_vh", next(c))))(c)
    utils.random.r.seed(s)
    utils.random.reset_word_pool()
    stage='gen'
    try:
        t0=time.time(); p=Generator(language=lang).generate(); times['gen']+=time.time()-t0
        stage='tr0'; t0=time.time(); tr=TR[lang]('src.pkg', {}); txt0=utils.translate_program(tr,p); times['tr']+=time.time()-t0
        stage='erase'; t0=time.time(); te=TypeErasure(p, lang, None, {'timeout':600}); te.transform(); p=te.result(); times['erase']+=time.time()-t0
        stats['erased' if te.is_transformed else 'not_erased']+=1
        stage='tr1'; txt1=utils.translate_program(tr,p)
        stats['erase_changed_text' if txt1!=txt0 else 'erase_same_text']+=1
        stage='overwrite'; t0=time.time(); to=TypeOverwriting(p, lang, None, {'timeout':600}); to.transform(); p=to.result(); times['ow']+=time.time()-t0
        stats['ow_injected' if to.is_transformed else 'ow_none']+=1
        stage='tr2'; txt2=utils.translate_program(tr,p)
        stats['ow_changed_text' if txt2!=txt1 else 'ow_same_text']+=1
        stats['ok']+=1
    except Exception as e:
        tb=traceback.extract_tb(e.__traceback__)
        fr=tb[-1]
        stats['EXC %s %s %s:%s:%d'%(stage,type(e).__name__,os.path.basename(fr.filename),fr.name,fr.lineno)]+=1
        if stats['printed']<0: pass
for k,v in sorted(stats.items()): print(v,k)
print(dict(times))
