import sys, random, itertools, collections, time, traceback
random.seed(0)
sys.path.insert(0,'/repo'); sys.path.insert(0,'/tmp/scratch/proto')
from src import utils
from src.ir import node as _n
from src.generators.generator import Generator
from src.transformations.type_erasure import TypeErasure
import refcheck
lang=sys.argv[1]
utils.random.remove_reserved_words(lang)
tot=collections.Counter(); ex={}; stats=collections.Counter(); bad=0; n=0
t0=time.time()
for s in range(int(sys.argv[2]),int(sys.argv[3])):
    c=itertools.count(1)
    _n.Node.__hash__=(lambda c: (lambda self: self.__dict__.get("_vh") or self.__dict__.setdefault("_vh", next(c))))(c)
    utils.random.r.seed(s); utils.random.reset_word_pool()
    try:
        p=Generator(language=lang).generate()
        if len(sys.argv)>4 and sys.argv[4]=='erase':
            te=TypeErasure(p,lang,None,{}); te.transform()
    except Exception as e:
        stats['gen exc']+=1; continue
    n+=1
    try:
        ctx=refcheck.check_program(p, infer=(len(sys.argv)>4 and sys.argv[4]=='erase'))
        for d in ctx.diffs:
            if stats['diffprinted']<8: stats['diffprinted']+=1; print('INFER-DIFF',s,d)
    except Exception as e:
        fr=traceback.extract_tb(e.__traceback__)[-1]
        stats['CHECKER EXC %s %s:%d %s'%(type(e).__name__,fr.name,fr.lineno,str(e)[:60])]+=1; continue
    stats.update(ctx.stats)
    if ctx.viol: bad+=1
    for rule,where,detail in ctx.viol:
        tot[rule]+=1; ex.setdefault(rule,[]) 
        if len(ex[rule])<4: ex[rule].append((s,where,detail[:230]))
print(lang,'programs',n,'with violations',bad,'time',round(time.time()-t0,1))
for r,c in tot.most_common():
    print(c,r)
    for e in ex[r]: print('     ',e)
print({k:v for k,v in stats.items() if not k.startswith('oblig_')})
print({k:v for k,v in stats.items() if k.startswith('oblig_')})
