import sys, os, random, itertools, json, pickle, hashlib
random.seed(0)
sys.path.insert(0,'/repo')
from src import utils
from src.ir import node as _n
from src.generators.generator import Generator
from src.transformations.type_erasure import TypeErasure
from src.transformations.type_overwriting import TypeOverwriting
from src.translators.java import JavaTranslator
from src.translators.kotlin import KotlinTranslator
from src.translators.groovy import GroovyTranslator
from src.translators.scala import ScalaTranslator
TR={'java':JavaTranslator,'kotlin':KotlinTranslator,'groovy':GroovyTranslator,'scala':ScalaTranslator}
mode,lang,lo,hi=sys.argv[1],sys.argv[2],int(sys.argv[3]),int(sys.argv[4])
d='/tmp/scratch/restart'; os.makedirs(d,exist_ok=True)
def tr_all(p):
    out={}
    for l,T in TR.items():
        try: out[l]=hashlib.sha1(utils.translate_program(T('src.p',{}),p).encode()).hexdigest()
        except Exception as e: out[l]='EXC '+type(e).__name__
    return out
if mode=='dump':
    utils.random.remove_reserved_words(lang)
    for s in range(lo,hi):
        c=itertools.count(1)
        _n.Node.__hash__=(lambda c: (lambda self: self.__dict__.get("_vh") or self.__dict__.setdefault("_vh", next(c))))(c)
        utils.random.r.seed(s); utils.random.reset_word_pool()
        try: p=Generator(language=lang).generate()
        except Exception: continue
        stages=[]
        utils.dump_program('%s/%s_%d_0.bin'%(d,lang,s),p); stages.append(tr_all(p))
        te=TypeErasure(p,lang,None,{}); te.transform()
        utils.dump_program('%s/%s_%d_1.bin'%(d,lang,s),p); stages.append(tr_all(p))
        to=TypeOverwriting(p,lang,None,{}); to.transform()
        utils.dump_program('%s/%s_%d_2.bin'%(d,lang,s),p); stages.append(tr_all(p))
        json.dump(stages,open('%s/%s_%d.json'%(d,lang,s),'w'))
else:
    bad=0;n=0
    for s in range(lo,hi):
        f='%s/%s_%d.json'%(d,lang,s)
        if not os.path.exists(f): continue
        stages=json.load(open(f))
        for i in range(3):
            q=utils.load_program('%s/%s_%d_%d.bin'%(d,lang,s,i))
            got=tr_all(q); n+=1
            if got!=stages[i]:
                bad+=1; print('DIFF',lang,s,i,{k:(got[k]==stages[i][k]) for k in got})
            # dump again stability (structural: translate after second round trip)
            q2=pickle.loads(pickle.dumps(q))
            if tr_all(q2)!=stages[i]: bad+=1; print('DIFF2',lang,s,i)
    print(lang,'hashseed',os.environ.get('PYTHONHASHSEED'),'checked',n,'bad',bad)
