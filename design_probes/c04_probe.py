import sys, random, itertools, collections, time, traceback
random.seed(0)
sys.path.insert(0,'/repo'); sys.path.insert(0,'/tmp/scratch/proto')
from src import utils
from src.ir import node as _n
from src.generators.generator import Generator
from src.transformations.type_erasure import TypeErasure
from src.transformations.type_overwriting import TypeOverwriting
import refcheck
lang=sys.argv[1]; rounds=int(sys.argv[4])
utils.random.remove_reserved_words(lang)
stats=collections.Counter(); ex=[]
for s in range(int(sys.argv[2]),int(sys.argv[3])):
    c=itertools.count(1)
    _n.Node.__hash__=(lambda c: (lambda self: self.__dict__.get("_vh") or self.__dict__.setdefault("_vh", next(c))))(c)
    utils.random.r.seed(s); utils.random.reset_word_pool()
    try:
        p=Generator(language=lang).generate()
        for _ in range(rounds):
            te=TypeErasure(p,lang,None,{}); te.transform()
        before=refcheck.check_program(p, infer=True)
        nb=len([v for v in before.viol if v[0]!='branch-vs-recorded'])
        to=TypeOverwriting(p,lang,None,{}); to.transform()
        if not to.is_transformed: stats['no injection']+=1; continue
        after=refcheck.check_program(p, infer=True)
        na=[v for v in after.viol if v[0]!='branch-vs-recorded']
        stats['injected']+=1
        if len(na)>nb: stats['rejected by checker']+=1
        else:
            stats['ACCEPTED by checker']+=1
            if len(ex)<12: ex.append((s,to.error_injected[:200]))
    except Exception as e:
        fr=traceback.extract_tb(e.__traceback__)[-1]
        stats['EXC %s %s:%d'%(type(e).__name__,fr.name,fr.lineno)]+=1
print(lang,'rounds',rounds,dict(stats))
for e in ex: print('   ',e)
