import sys, random, itertools, pickle, hashlib, collections
random.seed(0)
sys.path.insert(0,'/repo')
from src import utils
from src.ir import node as _n, visitors
from src.generators.generator import Generator
from src.transformations import base as tbase
from src.transformations.type_erasure import TypeErasure
from src.transformations.type_overwriting import TypeOverwriting
from src.translators.kotlin import KotlinTranslator
lang='kotlin'
utils.random.remove_reserved_words(lang)
class Sim:
    step=0; fire_at=None; timers=[]; fired=0
class FakeTimer:
    def __init__(self, interval, fn, args=None, kwargs=None):
        self.fn=fn; self.args=args or []; self.alive=False
    def start(self): self.alive=True; Sim.timers.append(self)
    def cancel(self):
        self.alive=False
        if self in Sim.timers: Sim.timers.remove(self)
class FakeThreading:
    Timer=FakeTimer
tbase.threading=FakeThreading
orig_visit=visitors.ASTVisitor.visit
def visit(self,node):
    Sim.step+=1
    if Sim.fire_at is not None and Sim.step==Sim.fire_at:
        for t in list(Sim.timers):
            if t.alive: t.fn(*t.args); Sim.fired+=1
    return orig_visit(self,node)
visitors.ASTVisitor.visit=visit
stats=collections.Counter()
def T(p): return utils.translate_program(KotlinTranslator('src.p',{}),p)
for s in range(int(sys.argv[1]),int(sys.argv[2])):
    c=itertools.count(1)
    _n.Node.__hash__=(lambda c: (lambda self: self.__dict__.get("_vh") or self.__dict__.setdefault("_vh", next(c))))(c)
    utils.random.r.seed(s); utils.random.reset_word_pool()
    try: p=Generator(language=lang).generate()
    except Exception: continue
    blob=pickle.dumps(p); st=utils.random.r.getstate()
    res=[]
    for fault in (None,'early','mid','late'):
        q=pickle.loads(blob); utils.random.r.setstate(st)
        Sim.step=0; Sim.fired=0; Sim.timers=[]
        # first pass without fault to learn step counts
        if fault is None: Sim.fire_at=None
        else: Sim.fire_at={'early':3,'mid':max(4,nsteps//2),'late':max(5,nsteps-2)}[fault]
        te=TypeErasure(q,lang,None,{'timeout':600}); te.transform(); q=te.result()
        a=(T(q),te.is_transformed)
        to=TypeOverwriting(q,lang,None,{'timeout':600}); to.transform(); q=to.result()
        b=(T(q),to.is_transformed,to.error_injected)
        if fault is None: nsteps=Sim.step
        res.append((a,b)); 
        if fault: stats['fired' if Sim.fired else 'notfired']+=1
    for r in res[1:]:
        stats['same' if r==res[0] else 'DIFF']+=1
print(dict(stats))
