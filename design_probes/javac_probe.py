import sys, os, random, itertools, collections, json, subprocess, shutil, re, pickle, traceback
random.seed(0)
sys.path.insert(0,'/repo')
from src import utils
from src.ir import node as _n
from src.generators.generator import Generator
from src.transformations.type_erasure import TypeErasure
from src.translators.java import JavaTranslator
lo,hi,tag=int(sys.argv[1]),int(sys.argv[2]),sys.argv[3]
root='/tmp/scratch/jp_%s'%tag
shutil.rmtree(root,ignore_errors=True); os.makedirs(root)
utils.random.remove_reserved_words('java')
res=[]
B=25
seeds=list(range(lo,hi))
for bi in range(0,len(seeds),B):
    bdir=os.path.join(root,'b%d'%bi); 
    meta={}
    for s in seeds[bi:bi+B]:
        c=itertools.count(1)
        _n.Node.__hash__=(lambda c: (lambda self: self.__dict__.get("_vh") or self.__dict__.setdefault("_vh", next(c))))(c)
        utils.random.r.seed(s); utils.random.reset_word_pool()
        try:
            p=Generator(language='java').generate()
            for variant in ('orig','erased'):
                if variant=='erased':
                    te=TypeErasure(p,'java',None,{}); te.transform(); p=te.result()
                pkg='s%d%s'%(s,variant)
                tr=JavaTranslator('src.'+pkg,{})
                txt=utils.translate_program(tr,p)
                d=os.path.join(bdir,'src',pkg); os.makedirs(d)
                open(os.path.join(d,'Main.java'),'w').write(txt)
                meta[os.path.join(d,'Main.java')]=(s,variant)
        except Exception as e:
            fr=traceback.extract_tb(e.__traceback__)[-1]
            res.append({'seed':s,'kind':'EXC','msg':'%s %s:%d'%(type(e).__name__,fr.name,fr.lineno)})
    if not meta: continue
    cmd='javac -nowarn -d %s %s'%(os.path.join(bdir,'out'), os.path.join(bdir,'src','*','*.java'))
    pr=subprocess.run(cmd,shell=True,capture_output=True,text=True)
    out=pr.stdout+pr.stderr
    for m in re.finditer(r'^(/\S+\.java):(\d+): error: (.*)$', out, re.M):
        f,ln,msg=m.group(1),int(m.group(2)),m.group(3)
        s,variant=meta.get(f,(None,None))
        try: line=open(f).read().split('\n')[ln-1].strip()[:220]
        except Exception: line=''
        res.append({'seed':s,'variant':variant,'kind':'JAVAC','msg':msg,'line':line})
    if 'error' in out and not re.search(r'^(/\S+\.java):(\d+): error:',out,re.M):
        res.append({'kind':'JAVAC-OTHER','msg':out[:500]})
    shutil.rmtree(bdir,ignore_errors=True)
json.dump(res,open('/tmp/scratch/jp_%s.json'%tag,'w'))
shutil.rmtree(root,ignore_errors=True)
print(tag,'done',len(res))
