import sys
sys.path.insert(0,'/repo'); sys.path.insert(0,'/tmp/scratch/proto')
from src.ir import ast as _ast
from src.ir import context as C
which=sys.argv[1]
if which=='rev':
    def _remove_entity(self, namespace, entity, name):
        if namespace not in self._context: return
        if name in self._context[namespace][entity]:
            del self._context[namespace][entity][name]
    C.Context._remove_entity=_remove_entity
elif which=='shadow':
    orig=C.Context._get_declarations
    def _get_declarations(self, namespace, decl_type, only_current, glob, none):
        if not glob and len(namespace)>1 and not only_current:
            from collections import OrderedDict
            decls=OrderedDict()
            for i in range(len(namespace),0,-1):   # inner first => outer shadows inner (bug)
                d=self._context.get(namespace[:i],{}).get(decl_type)
                if d is not None: decls.update(d)
            return {k:v for k,v in decls.items() if v is not None}
        return orig(self, namespace, decl_type, only_current, glob, none)
    C.Context._get_declarations=_get_declarations
elif which=='walk':
    def get_decl(context, namespace, decl_name, limit=None):
        decls=context.get_declarations(namespace, True)
        d=decls.get(decl_name)
        return (namespace,d) if d else None      # bug: never walks outwards
    C.get_decl=get_decl
import ctx_machine
ctx_machine.get_decl=C.get_decl
sys.argv=['x','0','1','100']
from hypothesis import settings, seed, HealthCheck
from hypothesis.stateful import run_state_machine_as_test
try:
    run_state_machine_as_test(seed(0)(ctx_machine.M), settings=settings(max_examples=100, stateful_step_count=30, database=None, deadline=None, report_multiple_bugs=False, suppress_health_check=list(HealthCheck)))
    print(which,'NOT CAUGHT')
except Exception as e:
    print(which,'CAUGHT', str(e)[:120]); print('\n'.join(getattr(e,'__notes__',[]))[:700])
