#!/bin/bash
# usage: tools/soak.sh "C11 C13 ..." "1 2 3"   -> runs quick tier for each id x seed, prints summary lines
for id in $1; do for sd in $2; do
  out=$(VERIF_SEED=$sd VERIF_NO_MINIMISE=${VERIF_NO_MINIMISE:-1} /venv/bin/python /verif/check.py $id --tier ${TIER:-quick} 2>&1)
  rc=$?
  echo "$out" | grep -E "VIOLATION|signature|HARNESS|KNOWN" | cut -c1-260
  echo "$out" | tail -1 | cut -c1-220; echo "  -> $id seed=$sd exit=$rc"
done; done
