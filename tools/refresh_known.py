#!/usr/bin/env python3
"""Re-records the replay files of `known` findings on the current tree (tapes recorded before a
later fix: commit diverge).  usage: tools/refresh_known.py [ID-prefix ...]"""
import json, os, subprocess, sys, shutil
os.chdir('/verif')
k = json.load(open('known_findings.json'))
want = sys.argv[1:]
todo = {}
for e in k['findings']:
    if e['status'] != 'known':
        continue
    if want and not any(e['id'].startswith(w) for w in want):
        continue
    f = e.get('first_replay')
    ok = False
    if f and os.path.exists(f):
        p = subprocess.run(['/venv/bin/python', 'check.py', e['property'], '--replay', f],
                           capture_output=True, text=True, timeout=1800)
        ok = p.returncode == 1
    if not ok:
        todo.setdefault(e['property'], []).append(e)
for prop, ents in todo.items():
    left = {e['id']: e for e in ents}
    for seed in range(100, 140):
        if not left:
            break
        env = dict(os.environ, VERIF_SEED=str(seed), VERIF_WRITE_KNOWN_REPLAYS='1', VERIF_NO_MINIMISE='1')
        subprocess.run(['/venv/bin/python', 'check.py', prop, '--tier', 'quick'], env=env,
                       capture_output=True, text=True, timeout=3600)
        for kid in list(left):
            auto = 'known_replays/%s.auto.json' % kid
            if os.path.exists(auto):
                dst = left[kid].get('first_replay') or 'known_replays/%s.json' % kid
                shutil.move(auto, dst)
                left[kid]['first_replay'] = dst
                print('refreshed', kid, dst, 'seed', seed, flush=True)
                del left[kid]
    for kid in left:
        print('NOT FOUND', kid, flush=True)
for f in os.listdir('known_replays'):
    if f.endswith('.auto.json'):
        os.unlink(os.path.join('known_replays', f))
# merge: only the replay paths, into the file as it is NOW (it may have been edited meanwhile)
cur = json.load(open('known_findings.json'))
paths = {e['id']: e.get('first_replay') for e in k['findings']}
for e in cur['findings']:
    if paths.get(e['id']) and e['status'] == 'known':
        e['first_replay'] = paths[e['id']]
json.dump(cur, open('known_findings.json', 'w'), indent=1)
