#!/usr/bin/env python3
"""Regenerates /verif/MANIFEST.json from the table below (single source of truth)."""
import json
import os

VERIF = os.path.dirname(os.path.dirname(os.path.abspath(__file__)))
PY = '/venv/bin/python'

TECH = 'deterministic simulation with fault injection: seeded search over simulated runs'

CHECKS = {
    'C18': dict(
        engine='pipeline-sim + driver-sim', design='DESIGN.md §4 C18, §0.9',
        text='Seeded search over simulated pipeline runs (choice tape, buggify, swarm '
             'configuration, early timer fires, clock jumps); every exception, hang, AST nesting '
             'above the calibrated bound, or a > 25 % rate of deterministic budget exhaustion on '
             'unbiased runs is a violation with a replayable tape. 30 % of the runs continue as a '
             'session of further programs in one process with a small identifier pool; 12 % of '
             'the evaluations are whole sessions of the real hephaestus.py with the real generator '
             'on the simulated worker pool (process-private module state per worker), where any '
             'program the driver reports as a tool failure is an internal failure. Evidence over '
             'sampled choice sequences, not a proof.',
        note='Trusted: the simulator seams (sim/core.py) and the work-unit accounting. Wall time '
             'is never an oracle.',
        technique=TECH + '; invariant: no exception / bounded nesting / budget rate'),
    'C17': dict(
        engine='pipeline-sim', design='DESIGN.md §4 C17',
        text='All 16 switch combinations x 4 languages are cycled through simulated generation '
             'runs; a reflective walker visits every type occurrence of the program. Sampled '
             'seeds, enumerated switch combinations.',
        note='Trusted: the reflective walker (sim/walk.py) reaches every attribute of every AST '
             'node. One known finding (C17-K1).',
        technique=TECH + '; invariant over every type occurrence of the generated program'),
    'C11': dict(
        engine='pipeline-sim', design='DESIGN.md §4 C11',
        text='Translator op histories (shared/fresh/foreign-language translators, package '
             'switches) over the stage programs of simulated pipeline runs; byte equality with '
             'the first fresh translation and structural-snapshot equality of the program after '
             'every operation; every history ends with a sweep of each program through the shared '
             'translator of each language.',
        note='Trusted: sim/snap.asnap covers every attribute of the program graph.',
        technique=TECH + '; history check: byte-equal text and unchanged program after every op'),
    'C13': dict(
        engine='pipeline-sim + fresh-interpreter restart', design='DESIGN.md §4 C13',
        level='fault_enumeration',
        text='The restart fault is taken at every save point of every simulated run (crash points '
             'enumerated, seeds sampled): dump with the tool\'s own dump_program, load through the '
             'real --replay path in a fresh interpreter (also under another PYTHONHASHSEED), '
             'compare translations in four languages, structural digest, re-dump stability, '
             'context reverse index and the outcome of the remaining mutations under the same '
             'tape continuation.',
        note='Trusted: the fresh interpreter shares nothing with the run but the dump file and '
             'the recorded tape continuation.',
        technique=TECH + '; crash/restart at every save point, equality with the uninterrupted run'),
    'C16': dict(
        engine='model-based op histories (Hypothesis stateful, seeded, outside pytest)',
        design='DESIGN.md §4 C16',
        text='Seeded add/remove/restart histories against the real Context, compared after every '
             'step with a reference scoped-map model on the full cross product of queries; '
             'failures are shrunk by Hypothesis and stored as explicit op lists.',
        note='Trusted: the 60-line reference model in checks/c16.py.',
        technique=TECH + '; refinement against an executable reference model, op by op'),
}

CHECKS['C15'] = dict(
    engine='driver-sim', design='DESIGN.md §4 C15',
    text='Whole sessions of the real hephaestus.py (sequential and worker-pool mode) under a '
         'seeded plan of verdicts, tool failures, compiler crashes, batch shapes, pool schedules '
         'and clock scripts; an independent decision table, a counter ledger checked after every '
         'batch, faults.json/stats.json and a directory-tree model decide. Sampled plans.',
    note='Trusted: the scripted compiler peer is the ground truth; the simulated pool runs a '
         'task to completion once scheduled, on a seeded worker that owns private copies of the '
         'identifier pool, STOP_COND and STATS (fork image). Two genuine defects were repaired '
         '(C15-F1, C15-F2).',
    technique=TECH + '; history check against an independent decision table and directory model')
CHECKS['C14'] = dict(
    engine='driver-sim (scripted compiler peer) + real javac', design='DESIGN.md §4 C14',
    text='Scripted compiler outputs in the four formats with seeded noise, ordering, interleaving, '
         'filters and stack traces (alone, or after / before / between complete diagnostic blocks), '
         'analysed by the real analyze_compiler_output and compared with '
         'the peer\'s ground truth; a share of runs uses the real javac on programs with injected '
         'errors. Sampled outputs.',
    note='Trusted: the output templates of sim/simcompiler.py (kotlinc, groovyc, scalac are not '
         'installed); javac 17 is real.',
    technique=TECH + '; scripted peer with fault injection, ground-truth comparison')

CHECKS['C02'] = dict(
    engine='pipeline-sim + real javac peer', design='DESIGN.md §4 C02',
    text='Batches of 1-5 Java programs generated one after the other in one simulated process, '
         'original and erased texts written in the driver\'s layout and compiled by the real '
         'javac 17 exactly as JavaCompiler builds the command, in a batch and alone; no error '
         'diagnostic, batch verdict == solo verdict, and the tool\'s own output analysis agrees '
         'with a line-anchored reading. Sampled seeds.',
    note='Trusted: javac 17 as judge.',
    technique=TECH + '; real compiler peer as judge, batch-vs-solo verdict stability')
CHECKS['C06'] = dict(
    engine='pipeline-sim monitors', design='DESIGN.md §4 C06',
    text='Every distinct top-level is_subtype query issued during simulated pipeline runs is '
         'judged for soundness against an independent declarative relation over the final class '
         'table; all ordered pairs over <= 40 types of the finished program are judged for '
         'soundness and, on the fragment the statement names, exactness. Decided only for what '
         'the simulated system asks and for class tables its runs produce; exhaustive '
         'enumeration over synthetic tables is a different technique and not claimed.',
    note='Trusted: sim/refrel.py (declarative relation on snapshots). One genuine defect '
         'repaired (C06-F1).',
    technique=TECH + '; in-run monitor + post-run probe against a reference relation')

MON_NOTE = ('Decided only for the calls the simulated system itself issues and for probes derived from '
            'the states its runs reach; synthetic declaration shapes beyond those are not claimed. '
            'Trusted: sim/refrel.py and the snapshot functions of sim/snap.py.')
CHECKS['C07'] = dict(
    engine='pipeline-sim monitors', design='DESIGN.md §4 C07',
    text='Every top-level TypeConstructor.new / substitute_type / to_variance_free / '
         'to_type_variable_free call on the aliased type objects of simulated pipeline runs: '
         'deep snapshots of all inputs before and after, a seeded ledger of earlier '
         'instantiations, and comparison of the result with an independent substitution '
         '(supertypes transitively); every instantiation nested anywhere in a result must keep '
         'its class\'s supertypes under its own arguments; plus ground re-instantiation of every '
         'generic class of the finished program.',
    note=MON_NOTE, technique=TECH + '; in-run monitor: before/after snapshots + reference substitution')
CHECKS['C08'] = dict(
    engine='pipeline-sim monitors', design='DESIGN.md §4 C08',
    text='Every instantiate_type_constructor / instantiate_parameterized_function call of '
         'simulated runs plus re-instantiation of every generic declaration of the finished '
         'program (incl. generic methods of generic classes with the class assignments handed '
         'over by the caller, and a derived bound G<T, a..> over a class variable), judged for '
         'arity, bounds (after substituting the other arguments and the caller\'s assignments), '
         'usable arguments, kept pre-assignments and permitted projections.',
    note=MON_NOTE + ' One genuine defect repaired (C08-F1).',
    technique=TECH + '; in-run monitor + post-run probe against a bounds/variance judgement')
CHECKS['C09'] = dict(
    engine='pipeline-sim monitors', design='DESIGN.md §4 C09',
    text='Every find_subtypes / find_supertypes / find_irrelevant_type call of simulated runs '
         '(generator, erasure analysis, overwriting) plus both searches re-run for types of the '
         'finished program (nested generic queries also against small pools made of their own '
         'constituents), judged against the reference relation over the final class table.',
    note=MON_NOTE + ' One defect repaired (C09-F1), three known findings (C09-K1..K3).',
    technique=TECH + '; in-run monitor + post-run probe against a reference relation')
CHECKS['C10'] = dict(
    engine='pipeline-sim monitors', design='DESIGN.md §4 C10',
    text='Every non-empty unify_types result of simulated runs (same-type and supertype-matching '
         'mode) plus probe unifications derived from the instantiations of the finished program '
         '(ground positions made right and wrong, repeated variables, variables bounded by a '
         'sibling variable or by a type over another bounded variable) checked against the '
         'substitute-back law and the bound conditions.',
    note=MON_NOTE,
    technique=TECH + '; in-run monitor + post-run probe: substitute-back law')

CHECKS['C03'] = dict(
    engine='pipeline-sim', design='DESIGN.md §4 C03',
    text='Every erasure round of simulated pipeline runs (early timer fires and clock jumps '
         'injected during the transformation): attribute-level snapshot diff must consist of '
         'permitted removals only; a run in which the timer fired must equal the fault-free run '
         'of the same tape; the inference obligation that is certain for Kotlin (omitted type '
         'arguments of a constructor call or generic method call without expected type need '
         'every type parameter in a parameter type) is checked on the erased program; half of '
         'the runs target Kotlin. Typability under '
         'inference for Java is judged by the real javac in C02 (erased leg).',
    note='Trusted: sim/snap.asnap/adiff cover every attribute. kotlinc/scalac/groovyc are not '
         'installed; the general inference-mode reference checker of DESIGN.md §3.4 is not built, '
         'only its certain fragment. One known finding (C03-K1).',
    technique=TECH + '; before/after structural diff, timer-fault equivalence, certain inference obligation')
CHECKS['C04'] = dict(
    engine='pipeline-sim + real javac', design='DESIGN.md §4 C04',
    text='TypeOverwriting applied 6 times per simulated program (after 0-3 erasure rounds, '
         'timer faults, scheduler bias towards type arguments): single-edit shape of the diff, '
         'unrelatedness of old and new type under the reference relation, message naming the '
         'replaced type / the new type, visibility of the change in the text, rejection by the '
         'real javac for Java, and unchanged program and translations when nothing is reported.',
    note='Trusted: sim/refrel.py, javac 17. Must-reject for Kotlin/Groovy/Scala rests on '
         'unrelatedness + visibility only. Three defects repaired (C04-F1..F3), four known '
         'findings (C04-K1..K4).',
    technique=TECH + '; before/after structural diff + reference relation + real javac as judge')
CHECKS['C12'] = dict(
    engine='pipeline-sim', design='DESIGN.md §4 C12',
    text='Stage programs of simulated pipeline runs translated by their language\'s translator: '
         'bracket/quote balance, declaration inventory against scanners of the text, and '
         'sentinel taint (one annotation at a time replaced by a fresh sentinel type in a pickled '
         'copy; it must appear in the text iff the language prints that annotation) extended to '
         'element taint: parameter / field types, bounds, super-type arguments, is-types, casts, '
         'literals, operators and val/var, vararg, !is flags must each be reflected in the text.',
    note='Trusted: the per-language expectation table and header scanners of checks/c12.py. '
         'Three known findings (C12-K1..K3: documented translator design).',
    technique=TECH + '; sentinel taint + inventory scanners on emitted text')

CHECKS['C01'] = dict(
    engine='pipeline-sim', design='DESIGN.md §4 C01',
    text='Every program returned by the generator in simulated runs is judged by an independent '
         'reference type checker on structural snapshots (initialisers, arguments, results, '
         'branches, assignments, explicit type arguments vs substituted bounds at every type '
         'occurrence, inheritance obligations). Liberal where the target languages differ; '
         'sampled seeds, four languages, all switches.',
    note='Trusted: sim/refcheck.py + sim/refrel.py (about 900 lines). The real javac judges the '
         'same property on Java text in C02.',
    technique=TECH + '; invariant checked by a reference type checker on every generated program')
CHECKS['C05'] = dict(
    engine='pipeline-sim', design='DESIGN.md §4 C05',
    text='Every program returned by the generator in simulated runs is walked by an independent '
         'lexical resolver: visibility of every name use, argument counts (defaults incl. '
         'inherited ones, varargs, named arguments), mutability of assigned variables/fields, '
         'regular classes instantiated, type variables in scope, unique and non-reserved '
         'identifiers, Java capture rule.',
    note='Trusted: sim/refcheck.py scoping rules. One genuine defect repaired (C05-F1).',
    technique=TECH + '; invariant checked by an independent scope resolver on every generated program')

NOT_YET = {
}

NOT_APPLICABLE = {
    'C19': 'pure functions of their argument (graph queries): no schedule, clock, fault, history '
           'or peer is involved, and the simulated system reaches only dfs(); deciding it means '
           'enumerating graphs, which is a different technique (DESIGN.md §4 C19)',
}


def main():
    props = [json.loads(l)['id'] for l in open(os.path.join(VERIF, 'properties.jsonl'))]
    checks = []
    for pid in props:
        c = CHECKS.get(pid)
        if not c:
            continue
        checks.append({
            'property_id': pid,
            'quick_cmd': '%s check.py %s --tier quick' % (PY, pid),
            'thorough_cmd': '%s check.py %s --tier thorough' % (PY, pid),
            'evidence_file': 'evidence/%s.json' % pid,
            'replay_cmd_template': '%s check.py %s --replay {path}' % (PY, pid),
            'engine': c['engine'],
            'level_claimed': {'category': c.get('level', 'exploration'), 'text': c['text'],
                              'design_ref': c['design']},
            'level_note': c['note'],
            'technique': c['technique'],
        })
    na = []
    for pid in props:
        if pid in CHECKS:
            continue
        reason = NOT_APPLICABLE.get(pid) or NOT_YET.get(pid) or \
            'check not built yet in this session (planned, see DESIGN.md §8); not claimed'
        na.append({'property_id': pid, 'reason': reason})
    m = {
        'version': 1,
        'setup_cmd': '%s -m sim.selftest --quick' % PY,
        'hooks': {
            'guard': 'HEPHAESTUS_VERIF (unused: no source hook exists; every seam is a module '
                     'attribute replaced at run time by the harness)',
            'enable': 'nothing to build: checks import /repo\'s working tree directly '
                      '(VERIF_REPO overrides the path) and install the simulator seams at run time',
            'baseline_off_cmd': 'cd /repo && /venv/bin/python -m pytest -q -p no:cacheprovider '
                                '--timeout=900',
            'source_commits': [],
            'add_only': True,
        },
        'engines': [
            {'name': 'pipeline-sim', 'path': 'sim/pipeline.py',
             'serves_properties': [p for p in props if p in CHECKS and
                                   'pipeline' in CHECKS[p]['engine']],
             'kind_free_text': 'whole generator/mutation/translation pipeline in one process under '
                               'a seeded choice tape, simulated clock and timers'},
            {'name': 'model-histories', 'path': 'checks/c16.py',
             'serves_properties': [p for p in props if p in CHECKS and
                                   'Hypothesis' in CHECKS[p]['engine']],
             'kind_free_text': 'seeded stateful op histories against a reference model'},
            {'name': 'driver-sim', 'path': 'sim/driver.py',
             'serves_properties': [p for p in props if p in CHECKS and
                                   'driver' in CHECKS[p]['engine']],
             'kind_free_text': 'whole hephaestus.py session with simulated compiler peer, worker '
                               'pool, clock and temp directories'},
        ],
        'checks': checks,
        'not_applicable': na,
        'notes': 'All checks: cwd /verif, honour VERIF_SEED, re-exec under PYTHONHASHSEED=0, '
                 'exit 0/1/2 (2 = harness problem, never a verdict). Known findings: '
                 'known_findings.json. See DESIGN.md.',
    }
    with open(os.path.join(VERIF, 'MANIFEST.json'), 'w') as f:
        json.dump(m, f, indent=1)
    print('MANIFEST.json: %d checks, %d not claimed' % (len(checks), len(na)))


if __name__ == '__main__':
    main()
