#!/bin/bash
# usage: tools/soak_all.sh "seeds" ["ids"]  -- quick tier of every registered check for each seed
IDS=${2:-"C01 C02 C03 C04 C05 C06 C07 C08 C09 C10 C11 C12 C13 C14 C15 C16 C17 C18"}
for sd in $1; do for id in $IDS; do
  out=$(VERIF_SEED=$sd VERIF_NO_MINIMISE=1 VERIF_MAX_REPORT=8 /venv/bin/python check.py $id --tier ${TIER:-quick} 2>&1)
  rc=$?
  echo "$out" | grep -E "^VIOLATION|signature:|HARNESS" | cut -c1-240
  echo "$out" | tail -1 | cut -c1-200; echo "  => $id seed=$sd exit=$rc"
done; done
