#!/bin/bash
# usage: tools/seeded.sh <out-dir-of-agent> <name> "<check ids>"
# verifies an injected change in a scratch copy of /repo and runs the named checks against it
set -u
OUT=$1; NAME=$2; CHECKS=$3
D=/dev/shm/verif-seeded-$$
rm -rf $D; mkdir -p $D
rsync -a --exclude .git /repo/ $D/
echo "== demo WITHOUT change"; (cd $D && timeout 900 /venv/bin/python $OUT/demo.py > /tmp/seeded_demo0.txt 2>&1; echo "exit=$?"; tail -2 /tmp/seeded_demo0.txt | cut -c1-200)
(cd $D && patch -p1 -s < $OUT/patch.diff) || { echo "PATCH FAILED"; rm -rf $D; exit 3; }
echo "== tests WITH change"; (cd $D && /venv/bin/python -m pytest -q -p no:cacheprovider --timeout=900 2>&1 | tail -1)
echo "== demo WITH change"; (cd $D && timeout 900 /venv/bin/python $OUT/demo.py > /tmp/seeded_demo1.txt 2>&1; echo "exit=$?"; tail -2 /tmp/seeded_demo1.txt | cut -c1-300)
cd /verif
for id in $CHECKS; do
  echo "== check $id against the change"
  VERIF_REPO=$D VERIF_NO_MINIMISE=1 VERIF_MAX_REPORT=4 /venv/bin/python check.py $id --tier ${TIER:-quick} 2>&1 | grep -v "^  (further\|KNOWN" | cut -c1-400 | tail -7
done
rm -rf $D
