#!/usr/bin/env python3
"""Replays every file named in known_findings.json: a `known` finding must still be observed
(exit 1, same signature), a `fixed` one must not."""
import json, subprocess, sys, os
os.chdir('/verif')
k = json.load(open('known_findings.json'))
bad = 0
for e in k['findings']:
    for key in ('first_replay', 'also_replay'):
        f = e.get(key)
        if not f:
            continue
        if not os.path.exists(f):
            print('MISSING', e['id'], f); bad += 1; continue
        p = subprocess.run(['/venv/bin/python', 'check.py', e['property'], '--replay', f],
                           capture_output=True, text=True, timeout=1800)
        seen = p.returncode == 1
        want = e['status'] == 'known'
        ok = seen == want
        print('%-8s %-6s %-5s %s' % (e['id'], e['status'], 'ok' if ok else 'BAD', (p.stdout.strip().split('\n') or [''])[-1][:150] if not ok else ''))
        bad += 0 if ok else 1
sys.exit(1 if bad else 0)
