#!/bin/bash
# usage: tools/mut.sh <check-id> <patch-file|-e 'sed-expr' file> ; runs the check's quick tier against a scratch copy of /repo
# scratch copy lives under /dev/shm/verif-mut-$$ and is removed afterwards
set -u
ID=$1; shift
D=/dev/shm/verif-mut-$$
rm -rf $D; mkdir -p $D
rsync -a --exclude .git /repo/ $D/
if [ "$1" = "-e" ]; then
  sed -i "$2" $D/$3 || exit 3
  (cd $D && diff -u /repo/$3 $3 | head -20)
else
  (cd $D && patch -p1 -s < "$1") || exit 3
fi
cd /verif
VERIF_REPO=$D VERIF_NO_MINIMISE=${VERIF_NO_MINIMISE:-1} /venv/bin/python check.py $ID --tier ${TIER:-quick} 2>&1 | tail -${TAIL:-8}
rc=${PIPESTATUS[0]}
rm -rf $D
echo "exit=$rc"
