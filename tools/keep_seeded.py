#!/usr/bin/env python3
"""usage: keep_seeded.py <agent out dir> <name> <property> "<caught by>" "<what I ran>" """
import json, os, shutil, sys
out, name, prop, caught, ran = sys.argv[1:6]
d = os.path.join('/verif/seeded', name)
os.makedirs(d, exist_ok=True)
shutil.copy(os.path.join(out, 'patch.diff'), d)
shutil.copy(os.path.join(out, 'demo.py'), d)
try:
    meta = json.load(open(os.path.join(out, 'meta.json')))
except Exception:
    meta = {}
meta['property'] = prop
meta['origin'] = 'independent sub-agent given only the property text and a scratch worktree'
meta['confirmed_by_me'] = ('applied to a scratch copy of /repo: 161 tests pass with the change; '
                           'demo.py exits 0 without and 1 with the change')
meta['checks_run'] = ran
meta['caught_by'] = caught
json.dump(meta, open(os.path.join(d, 'meta.json'), 'w'), indent=1)
print('kept', d)
