"""pipeline-sim: one simulated run of generate -> erase* -> overwrite -> translate,
reproducing the call pattern of hephaestus.gen_program (same translator object
re-used, mutations in place), under a Sim."""
import pickle
import traceback

from sim.core import Sim, SimAbort, SimBudget, SimHang, ReplayDiverged, apply_config

TRANSLATORS = None


def translators():
    global TRANSLATORS
    if TRANSLATORS is None:
        from src.translators.java import JavaTranslator
        from src.translators.kotlin import KotlinTranslator
        from src.translators.groovy import GroovyTranslator
        from src.translators.scala import ScalaTranslator
        TRANSLATORS = {'java': JavaTranslator, 'kotlin': KotlinTranslator,
                       'groovy': GroovyTranslator, 'scala': ScalaTranslator}
    return TRANSLATORS


def exc_signature(exc, tb=None):
    """(type, innermost three frames inside the tree under test)"""
    frames = traceback.extract_tb(tb or exc.__traceback__)
    mine = [f for f in frames if '/src/' in f.filename or f.filename.endswith('hephaestus.py')]
    inner = ['%s:%s' % (f.filename.split('/')[-1], f.name) for f in mine[-3:]]
    return type(exc).__name__, inner


def exc_brief(exc):
    frames = traceback.extract_tb(exc.__traceback__)
    mine = [f for f in frames if '/src/' in f.filename or f.filename.endswith('hephaestus.py')]
    loc = ['%s:%d:%s' % (f.filename.split('/')[-1], f.lineno, f.name) for f in mine[-4:]]
    return '%s: %s @ %s' % (type(exc).__name__, str(exc)[:160], ' < '.join(reversed(loc)))


class StageError(Exception):
    def __init__(self, stage, exc):
        super().__init__(stage)
        self.stage = stage
        self.exc = exc


class Observer:
    """Checks subclass this. Every callback may inspect but must not mutate."""

    def on_generated(self, run, program):
        pass

    def before_transform(self, run, name, program, index):
        pass

    def after_transform(self, run, name, program, transformer, index):
        pass

    def on_text(self, run, stage, text):
        pass


class PipelineRun:
    def __init__(self, sim, config, observer=None, translate=True, package='src.pkg'):
        self.sim = sim
        self.config = config
        self.obs = observer or Observer()
        self.do_translate = translate
        self.package = package
        self.program = None
        self.translator = None
        self.stages = []        # (stage name, text or None)
        self.transformers = []
        self.error = None       # (stage, exc)
        self.status = 'ok'      # ok | error | budget | hang | diverged
        self.language = config['language']

    def _translate(self, stage):
        from src import utils
        if not self.do_translate:
            return None
        self.sim.event('translate %s' % stage)
        text = utils.translate_program(self.translator, self.program)
        self.sim.event('text %s %d %08x' % (stage, len(text), hash_text(text)))
        self.stages.append((stage, text))
        self.obs.on_text(self, stage, text)
        return text

    def run(self):
        from src.generators.generator import Generator
        from src.transformations.type_erasure import TypeErasure
        from src.transformations.type_overwriting import TypeOverwriting
        c = self.config
        lang = c['language']
        apply_config(c)
        sim = self.sim
        stage = 'generate'
        try:
            sim.event('generate %s' % lang)
            gen = Generator(language=lang, options={})
            self.generator = gen
            self.program = gen.generate()
            sim.event('generated draws=%d' % len(sim.rand.tape))
            self.obs.on_generated(self, self.program)
            self.translator = translators()[lang](
                self.package, {'cast_numbers': bool(c.get('cast_numbers'))})
            stage = 'translate:generated'
            self._translate('generated')
            opts = {'timeout': c.get('timeout', 600)}
            for i in range(c.get('rounds', 0)):
                stage = 'erasure%d' % (i + 1)
                self.obs.before_transform(self, 'TypeErasure', self.program, i)
                te = TypeErasure(self.program, lang, None, dict(opts))
                te.transform()
                self.program = te.result()
                self.transformers.append(te)
                sim.event('erased%d transformed=%s' % (i + 1, te.is_transformed))
                self.obs.after_transform(self, 'TypeErasure', self.program, te, i)
                stage = 'translate:erased%d' % (i + 1)
                self._translate('erased%d' % (i + 1))
            if not c.get('only_cp'):
                stage = 'overwriting'
                self.obs.before_transform(self, 'TypeOverwriting', self.program,
                                          c.get('rounds', 0))
                to = TypeOverwriting(self.program, lang, None, dict(opts))
                to.transform()
                self.program = to.result()
                self.transformers.append(to)
                sim.event('overwritten transformed=%s err=%s' % (
                    to.is_transformed, to.error_injected))
                self.obs.after_transform(self, 'TypeOverwriting', self.program, to,
                                         c.get('rounds', 0))
                stage = 'translate:overwritten'
                self._translate('overwritten')
        except SimBudget:
            self.status = 'budget'
            self.error = (stage, None)
        except SimHang as e:
            self.status = 'hang'
            self.error = (stage, e)
        except ReplayDiverged as e:
            self.status = 'diverged'
            self.error = (stage, e)
        except SimAbort:
            raise
        except (Exception, RecursionError) as e:   # noqa
            self.status = 'error'
            self.error = (stage, e)
            sim.event('exception %s %s' % (stage, type(e).__name__))
        return self


def hash_text(t):
    import zlib
    return zlib.crc32(t.encode('utf-8', 'replace')) & 0xffffffff


def snapshot_bytes(program):
    return pickle.dumps(program, protocol=4)
