"""Reference type checker and scope resolver on a finished IR program (C01, C05).

Independent of the code under test: types are structural snapshots (sim/snap.tsnap),
the relation is sim/refrel, names are resolved by an own lexical walk of the AST.
Never calls is_subtype / substitute_type / get_type_hint / find_* / any translator.

Where a rule of the four target languages is unsettled at IR level the checker is
LIBERAL (accepts) and counts the site as undetermined: a false alarm is worse here than
a missed bug.
"""
import collections

from sim import refrel
from sim.snap import tsnap, tstr, shape

BOTTOM = ('BOTTOM',)
NUMERIC = ('IntegerType', 'ShortType', 'LongType', 'ByteType', 'FloatType', 'DoubleType',
           'NumberType', 'BigDecimalType', 'BigIntegerType', 'CharType')


class Scope:
    __slots__ = ('parent', 'names', 'casts', 'kind', 'owner')

    def __init__(self, parent=None, kind='block', owner=None):
        self.parent = parent
        self.names = {}
        self.casts = {}
        self.kind = kind         # global | class | function | lambda | block
        self.owner = owner

    def lookup(self, name):
        s = self
        while s is not None:
            if name in s.names:
                return s.names[name], s
            s = s.parent
        return None, None

    def cast(self, name):
        s = self
        while s is not None:
            if name in s.casts:
                return s.casts[name]
            if name in s.names:
                return None
            s = s.parent
        return None


class Checker:
    def __init__(self, program, infer=False):
        from src.ir import ast
        self.ast = ast
        self.p = program
        self.f = program.bt_factory
        self.lang = program.language
        self.decls = collections.OrderedDict(
            program.context._context.get(('global',), {}).get('decls', {}))
        self.class_decls = {n: d for n, d in self.decls.items()
                            if isinstance(d, ast.ClassDeclaration)}
        self.tb = refrel.Table(self.f, list(self.class_decls.values()))
        self.viol = []
        self.stats = collections.Counter()
        self.void = tsnap(self.f.get_void_type())
        self.boolean = tsnap(self.f.get_boolean_type())
        self.infer = infer
        self.inferred = {}       # id(declaration) -> type a compiler infers (inference mode)
        self._memo = {}
        self.tvars = []          # stack of sets of type-variable names in scope
        self.in_java_lambda = 0
        self.boundaries = []     # scopes of the enclosing Java lambdas / nested functions

    # -- helpers -------------------------------------------------------------------
    def S(self, t):
        if t is None:
            return None
        k = id(t)
        r = self._memo.get(k)
        if r is None:
            r = self._memo[k] = (tsnap(t), t)
            # built-in constructors no factory method hands out (Kotlin's IntArray & co.)
            if r[0] is not None and r[0][0] in ('P', 'TC') and r[0][1] not in self.tb.classes \
                    and '#' in r[0][1]:
                self.tb.add_type(t)
        return r[0]

    def report(self, prop, rule, where, detail, extra=''):
        self.viol.append({'prop': prop, 'rule': rule, 'where': where, 'detail': detail,
                          'extra': extra})

    def sub(self, a, b):
        try:
            return refrel.sub(a, b, self.tb)
        except refrel.Unknown:
            self.stats['sub_unknown'] += 1
            return None
        except RecursionError:
            self.stats['sub_unknown'] += 1
            return None

    def is_void(self, t):
        return t is not None and t[0] == 'B' and t[1] in ('VoidType', 'UnitType')

    # -- classes and members --------------------------------------------------------
    def class_of(self, t):
        """(class decl, {param name: argument}) of a receiver type, or None"""
        seen = 0
        while t is not None and t[0] in ('V', 'W'):
            t = t[3] if t[0] == 'V' else (t[2] if t[1] != refrel.CONTRA else None)
            seen += 1
            if seen > 12:
                return None
        if t is None or t[0] not in ('C', 'P'):
            return None
        cd = self.class_decls.get(t[1])
        if cd is None:
            return None
        m = {}
        if cd.type_parameters:
            if t[0] != 'P' or len(cd.type_parameters) != len(t[2]):
                return None
            m = {p.name: a for p, a in zip(cd.type_parameters, t[2])}
        return cd, m

    def find_member(self, cd, m, name, kind):
        depth = 0
        while cd is not None and depth < 40:
            coll = cd.fields if kind == 'field' else cd.functions
            for d in coll:
                if d.name == name:
                    return d, m, cd
            if not cd.superclasses:
                return None
            nxt = None
            for s in cd.superclasses:
                st = refrel.subst(self.S(s.class_type), m) if m else self.S(s.class_type)
                r = self.class_of(st)
                if r is not None:
                    nxt = r
                    break
            if nxt is None:
                return None
            cd, m = nxt
            depth += 1
        return None

    def top_of_override_chain(self, cd, m, fname):
        """parameter declarations (for defaults) from the topmost declaration of a method"""
        best = None
        depth = 0
        while cd is not None and depth < 40:
            for d in cd.functions:
                if d.name == fname:
                    best = d
            if not cd.superclasses:
                break
            r = None
            for s in cd.superclasses:
                st = refrel.subst(self.S(s.class_type), m) if m else self.S(s.class_type)
                r = self.class_of(st)
                if r is not None:
                    break
            if r is None:
                break
            cd, m = r
            depth += 1
        return best

    # -- assignability ---------------------------------------------------------------
    def assignable(self, actual, expected, where, rule, expr=None):
        self.stats['oblig_' + rule] += 1
        if actual is BOTTOM:
            return True
        if actual is None or expected is None:
            self.stats['undetermined_' + rule] += 1
            return True
        if expected[0] == 'W':
            if expected[2] is None:
                return True
            a = self.sub(actual if actual[0] != 'W' else (actual[2] or actual), expected[2])
            b = self.sub(expected[2], actual if actual[0] != 'W' else (actual[2] or actual))
            if a is not False or b is not False:
                return True
            self.mismatch(rule, where, actual, expected, expr)
            return False
        if actual[0] == 'W':
            if actual[2] is None or actual[1] != refrel.COV:
                self.stats['undetermined_' + rule] += 1
                return True
            actual = actual[2]
        if self.is_void(expected):
            return True
        ast = self.ast
        if isinstance(expr, (ast.Lambda, ast.FunctionReference)):
            r = self.class_of(expected)
            if r is not None and r[0].class_type == ast.ClassDeclaration.INTERFACE:
                self.stats['sam_coercion'] += 1
                return True
        ok = self.sub(actual, expected)
        if ok is None:
            self.stats['undetermined_' + rule] += 1
            return True
        if ok:
            return True
        # numeric leniency (Java/Groovy implicit conversions of constants; liberal)
        if actual[0] == 'B' and expected[0] == 'B' and self.lang in ('java', 'groovy') and \
                actual[1] in NUMERIC and expected[1] in NUMERIC and \
                isinstance(expr, (ast.IntegerConstant, ast.RealConstant)):
            self.stats['numeric_constant_leniency'] += 1
            return True
        self.mismatch(rule, where, actual, expected, expr)
        return False

    def mismatch(self, rule, where, actual, expected, expr):
        self.report('C01', rule, where,
                    'actual %s, expected %s' % (tstr(actual), tstr(expected)),
                    '%s|%s-vs-%s' % (type(expr).__name__ if expr is not None else '-',
                                     shape(actual, 1), shape(expected, 1)))

    # -- well-formedness of a type occurrence (explicit arguments vs bounds) ---------
    def wf(self, t, where, depth=0):
        if t is None or depth > 8:
            return
        if t[0] == 'W':
            self.wf(t[2], where, depth + 1)
            return
        if t[0] == 'V':
            if self.tvars and not any(t[1] in s for s in self.tvars):
                self.report('C05', 'type-variable-out-of-scope', where,
                            'type variable %s is used outside the class/function that '
                            'declares it' % t[1], 'tvar')
            return
        if t[0] != 'P':
            return
        ci = self.tb.classes.get(t[1])
        for a in t[2]:
            self.wf(a, where, depth + 1)
        if ci is None or ci.builtin or len(ci.params) != len(t[2]):
            return
        m = {p[0]: a for p, a in zip(ci.params, t[2])}
        for p, a in zip(ci.params, t[2]):
            if p[2] is None:
                continue
            self.stats['oblig_targ-bound'] += 1
            b = refrel.subst(p[2], m)
            x = a
            if a[0] == 'W':
                if a[2] is None or a[1] != refrel.COV:
                    continue
                x = a[2]
            if x[0] == 'N' or refrel.has_wild(b):
                continue
            ok = self.sub(x, b)
            if ok is False:
                self.report('C01', 'targ-bound', where,
                            '%s: argument %s for %s is not within the bound %s' % (
                                tstr(t), tstr(a), p[0], tstr(b)),
                            '%s-vs-%s' % (shape(x, 1), shape(b, 1)))

    # -- expressions -------------------------------------------------------------------
    def typeof(self, e, sc, where, expected=None):
        ast = self.ast
        k = type(e)
        if k is ast.IntegerConstant:
            return self.S(e.integer_type) if e.integer_type is not None else \
                self.S(self.f.get_integer_type())
        if k is ast.RealConstant:
            return self.S(e.real_type)
        if k is ast.BooleanConstant:
            return self.boolean
        if k is ast.CharConstant:
            return self.S(self.f.get_char_type())
        if k is ast.StringConstant:
            return self.S(self.f.get_string_type())
        if k is ast.BottomConstant:
            if e.t is not None:
                t = self.S(e.t)
                self.wf(t, where)
                return t
            return BOTTOM
        if k is ast.Variable:
            return self.t_var(e, sc, where)
        if k is ast.New:
            return self.t_new(e, sc, where)
        if k is ast.FieldAccess:
            return self.t_field(e, sc, where)
        if k is ast.FunctionCall:
            return self.t_call(e, sc, where)
        if k is ast.FunctionReference:
            return self.t_funcref(e, sc, where)
        if k is ast.Lambda:
            return self.t_lambda(e, sc, where)
        if k is ast.Conditional:
            return self.t_cond(e, sc, where, expected)
        if k is ast.Block:
            return self.t_block(e, sc, where, expected)
        if k is ast.Assignment:
            return self.t_assign(e, sc, where)
        if k is ast.ArrayExpr:
            at = self.S(e.array_type)
            et = at[2][0] if at[0] == 'P' and at[2] else None
            for x in e.exprs:
                self.assignable(self.typeof(x, sc, where, et), et, where, 'array-elem', x)
            return at
        if k is ast.Is:
            self.typeof(e.lexpr, sc, where)
            return self.boolean
        if isinstance(e, ast.BinaryOp):
            self.typeof(e.lexpr, sc, where)
            self.typeof(e.rexpr, sc, where)
            return self.boolean
        if k is ast.VariableDeclaration:
            self.check_var(e, sc, where)
            self.declare(sc, e.name, e, where)
            return self.void
        if k is ast.FunctionDeclaration:
            self.declare(sc, e.name, e, where)
            self.check_func(e, sc, where + '/' + e.name)
            return self.void
        self.stats['unknown_node_' + k.__name__] += 1
        return None

    def declare(self, sc, name, decl, where):
        if name in sc.names and sc.names[name] is not decl:
            self.report('C05', 'duplicate-identifier', where,
                        'identifier %s is declared twice in one scope' % name, sc.kind)
        sc.names[name] = decl

    def decl_type(self, d):
        ast = self.ast
        if self.infer and id(d) in self.inferred:
            return self.inferred[id(d)]
        if isinstance(d, ast.VariableDeclaration):
            return self.S(d.var_type if d.var_type is not None else d.inferred_type)
        if isinstance(d, ast.ParameterDeclaration):
            return self.S(d.param_type)
        if isinstance(d, ast.FieldDeclaration):
            return self.S(d.field_type)
        if isinstance(d, ast.FunctionDeclaration):
            return self.S(d.ret_type if d.ret_type is not None else d.inferred_type)
        return None

    def t_var(self, e, sc, where):
        ast = self.ast
        self.stats['oblig_resolve-variable'] += 1
        c = sc.cast(e.name)
        d, ds = sc.lookup(e.name)
        if d is None or isinstance(d, (ast.FunctionDeclaration, ast.ClassDeclaration)):
            self.report('C05', 'unresolved-variable', where,
                        'variable %s is not visible here' % e.name, 'Variable')
            return None
        if self.boundaries and isinstance(d, ast.VariableDeclaration) and not d.is_final \
                and ds.kind in ('function', 'block', 'lambda') and \
                self._strictly_outside(ds, self.boundaries[-1]):
            self.report('C05', 'java-lambda-captures-non-final', where,
                        'non-final local %s is captured by a Java lambda / nested function'
                        % e.name, 'capture')
        if c is not None:
            return c
        if isinstance(d, ast.FieldDeclaration) and ds.kind == 'class':
            return self.decl_type(d)
        return self.decl_type(d)

    @staticmethod
    def _strictly_outside(ds, boundary):
        """is scope ds a proper ancestor of the boundary scope?"""
        s = boundary.parent
        while s is not None:
            if s is ds:
                return True
            s = s.parent
        return False

    def t_new(self, e, sc, where):
        ast = self.ast
        t = self.S(e.class_type)
        self.wf(t, where)
        if t[0] == 'B':
            return t
        r = self.class_of(t)
        self.stats['oblig_resolve-class'] += 1
        if r is None:
            if t[0] in ('C', 'P') and t[1] not in self.tb.classes:
                self.report('C05', 'unresolved-class', where,
                            'new %s: no such class' % tstr(t), 'New')
            for a in e.args:
                self.typeof(a, sc, where)
            return t
        cd, m = r
        if cd.class_type != ast.ClassDeclaration.REGULAR:
            self.report('C05', 'instantiates-non-regular-class', where,
                        'new %s: %s is %s' % (cd.name, cd.name, cd.get_class_prefix()), 'New')
        if len(e.args) != len(cd.fields):
            self.report('C05', 'constructor-arity', where, 'new %s with %d arguments, the class '
                        'has %d fields' % (cd.name, len(e.args), len(cd.fields)), 'New')
            for a in e.args:
                self.typeof(a, sc, where)
            return t
        for a, f in zip(e.args, cd.fields):
            ft = self.S(f.field_type)
            ft = refrel.subst(ft, m) if m else ft
            self.assignable(self.typeof(a, sc, where, ft), self.write_view(ft), where,
                            'ctor-arg', a)
        return t

    @staticmethod
    def write_view(t):
        return t

    def read_view(self, t):
        """type of a value read through a (possibly projected) position"""
        if t is None:
            return None
        if t[0] == 'W':
            if t[2] is None or t[1] == refrel.CONTRA:
                return None
            return t[2]
        return t

    def t_field(self, e, sc, where):
        rt = self.typeof(e.expr, sc, where)
        self.stats['oblig_resolve-field'] += 1
        if rt is BOTTOM or rt is None:
            self.stats['undetermined_receiver'] += 1
            return None
        r = self.class_of(rt)
        if r is None:
            self.stats['undetermined_receiver'] += 1
            return None
        fm = self.find_member(r[0], r[1], e.field, 'field')
        if fm is None:
            self.report('C05', 'unresolved-field', where,
                        '%s has no field %s' % (tstr(rt), e.field), 'FieldAccess')
            return None
        f, m2, _ = fm
        ft = self.S(f.field_type)
        return self.read_view(refrel.subst(ft, m2) if m2 else ft)

    @staticmethod
    def sig_parts(t):
        if t is not None and t[0] == 'P' and t[1].startswith('Function'):
            return list(t[2][:-1]), t[2][-1]
        return None

    def t_funcref(self, e, sc, where):
        ast = self.ast
        self.stats['oblig_resolve-function-reference'] += 1
        if e.receiver is not None:
            rt = self.typeof(e.receiver, sc, where)
            if rt is not BOTTOM and rt is not None:
                r = self.class_of(rt)
                if r is not None and self.find_member(r[0], r[1], e.func, 'func') is None:
                    self.report('C05', 'unresolved-function-reference', where,
                                '%s::%s: no such method' % (tstr(rt), e.func), 'FunctionReference')
        else:
            d, _ = sc.lookup(e.func)
            if d is None or not isinstance(d, ast.FunctionDeclaration):
                self.report('C05', 'unresolved-function-reference', where,
                            '::%s: no such function in scope' % e.func, 'FunctionReference')
        return self.S(e.signature)

    def t_call(self, e, sc, where):
        ast = self.ast
        if e.is_ref_call:
            return self.t_refcall(e, sc, where)
        m = {}
        self.stats['oblig_resolve-function'] += 1
        owner = None
        if e.receiver is None:
            d, ds = sc.lookup(e.func)
            if d is None or not isinstance(d, ast.FunctionDeclaration):
                self.report('C05', 'unresolved-function', where,
                            'function %s is not visible here' % e.func, 'FunctionCall')
                for a in e.args:
                    self.typeof(a.expr, sc, where)
                return None
            if ds is not None and ds.kind == 'class':
                owner = (ds.owner, {})
        else:
            rt = self.typeof(e.receiver, sc, where)
            if rt is BOTTOM or rt is None:
                self.stats['undetermined_receiver'] += 1
                for a in e.args:
                    self.typeof(a.expr, sc, where)
                return None
            r = self.class_of(rt)
            if r is None:
                self.stats['undetermined_receiver'] += 1
                for a in e.args:
                    self.typeof(a.expr, sc, where)
                return None
            fm = self.find_member(r[0], r[1], e.func, 'func')
            if fm is None:
                self.report('C05', 'unresolved-method', where,
                            '%s has no method %s' % (tstr(rt), e.func), 'FunctionCall')
                for a in e.args:
                    self.typeof(a.expr, sc, where)
                return None
            d, m, cd = fm
            m = dict(m)
            owner = (r[0], r[1])
        if d.type_parameters:
            if e.type_args and len(e.type_args) == len(d.type_parameters):
                for p, a in zip(d.type_parameters, e.type_args):
                    sa = self.S(a)
                    self.wf(sa, where)
                    m[p.name] = sa
                for p in d.type_parameters:
                    if p.bound is None:
                        continue
                    self.stats['oblig_targ-bound'] += 1
                    b = refrel.subst(self.S(p.bound), m)
                    x = m[p.name]
                    if x[0] == 'W':
                        if x[2] is None or x[1] != refrel.COV:
                            continue
                        x = x[2]
                    if x[0] == 'N' or refrel.has_wild(b):
                        continue
                    if self.sub(x, b) is False:
                        self.report('C01', 'targ-bound', where,
                                    'call of %s: type argument %s for %s is not within the bound '
                                    '%s' % (e.func, tstr(m[p.name]), p.name, tstr(b)),
                                    'call|%s-vs-%s' % (shape(x, 1), shape(b, 1)))
            elif e.type_args:
                self.report('C05', 'type-argument-arity', where,
                            'call of %s with %d type arguments, %d type parameters' % (
                                e.func, len(e.type_args), len(d.type_parameters)), 'FunctionCall')
            else:
                self.stats['call_without_type_args'] += 1
                for a in e.args:
                    self.typeof(a.expr, sc, where)
                return None
        # defaults are inherited through overrides
        params = list(d.params)
        top = None
        if owner is not None:
            top = self.top_of_override_chain(owner[0], owner[1], e.func)
        pos = [a for a in e.args if a.name is None]
        named = {a.name: a for a in e.args if a.name is not None}
        for nm in named:
            if nm not in [p.name for p in params]:
                self.report('C05', 'unknown-named-argument', where,
                            'call of %s names argument %s, no such parameter' % (e.func, nm),
                            'FunctionCall')
        i = 0
        arity_bad = False

        def has_def(j_, p_):
            return p_.default is not None or (
                top is not None and j_ < len(top.params) and top.params[j_].default is not None)
        strict_positional = self.lang in ('kotlin', 'scala') and not any(
            q.vararg for q in params)
        required_after = [0] * (len(params) + 1)
        for j in range(len(params) - 1, -1, -1):
            pj = params[j]
            req = not pj.vararg and pj.name not in named and not has_def(j, pj)
            required_after[j] = required_after[j + 1] + (1 if req else 0)
        for j, p in enumerate(params):
            pt = self.S(p.param_type)
            pt = refrel.subst(pt, m) if m else pt
            if p.vararg:
                et = pt[2][0] if pt is not None and pt[0] == 'P' and pt[2] else None
                while i < len(pos):
                    self.assignable(self.typeof(pos[i].expr, sc, where, et), et, where, 'arg',
                                    pos[i].expr)
                    i += 1
                continue
            has_default = has_def(j, p)
            if p.name in named:
                a = named[p.name]
                self.assignable(self.typeof(a.expr, sc, where, pt), pt, where, 'arg', a.expr)
            elif has_default and (
                    i >= len(pos) if strict_positional
                    else (len(pos) - i) <= required_after[j + 1]):
                # Kotlin / Scala bind positional arguments strictly left to right: a parameter
                # with a default is skipped only when no positional argument is left (a later
                # parameter WITHOUT default then stays unbound).  Groovy and Java realise
                # defaults by overloads that drop defaulted parameters wherever they stand.
                continue
            else:
                if i >= len(pos):
                    arity_bad = True
                    break
                self.assignable(self.typeof(pos[i].expr, sc, where, pt), pt, where, 'arg',
                                pos[i].expr)
                i += 1
        self.stats['oblig_call-arity'] += 1
        if arity_bad or i < len(pos):
            self.report('C05', 'call-arity', where,
                        'call of %s with %d positional arguments does not fit its %d parameters'
                        % (e.func, len(pos), len(params)), 'FunctionCall')
            for a in pos[i:]:
                self.typeof(a.expr, sc, where)
        rt = self.decl_type(d)
        rt = refrel.subst(rt, m) if m else rt
        return self.read_view(rt)

    def t_refcall(self, e, sc, where):
        ast = self.ast
        self.stats['oblig_resolve-function'] += 1
        ft = None
        if e.receiver is None:
            d, _ = sc.lookup(e.func)
            c = sc.cast(e.func)
            if d is None:
                self.report('C05', 'unresolved-function', where,
                            'function-typed variable %s is not visible here' % e.func,
                            'FunctionCall-ref')
            else:
                ft = c or self.decl_type(d)
        else:
            rt = self.typeof(e.receiver, sc, where)
            if rt is not BOTTOM and rt is not None:
                r = self.class_of(rt)
                if r:
                    fm = self.find_member(r[0], r[1], e.func, 'field')
                    if fm is None:
                        self.report('C05', 'unresolved-field', where,
                                    '%s has no field %s (called as a function)' % (
                                        tstr(rt), e.func), 'FunctionCall-ref')
                    else:
                        ft = self.S(fm[0].field_type)
                        ft = refrel.subst(ft, fm[1]) if fm[1] else ft
        while ft is not None and ft[0] in ('W', 'V'):
            ft = ft[2] if ft[0] == 'W' else ft[3]
        sp = self.sig_parts(ft)
        if sp is None:
            self.stats['undetermined_refcall'] += 1
            for a in e.args:
                self.typeof(a.expr, sc, where)
            return None
        ps, ret = sp
        self.stats['oblig_call-arity'] += 1
        if len(ps) != len(e.args):
            self.report('C05', 'call-arity', where,
                        'call through %s with %d arguments, the function type takes %d' % (
                            e.func, len(e.args), len(ps)), 'FunctionCall-ref')
            return self.read_view(ret)
        for a, pt in zip(e.args, ps):
            if pt is not None and pt[0] == 'W':
                pt = pt[2] if pt[1] == refrel.CONTRA else None
            self.assignable(self.typeof(a.expr, sc, where, pt), pt, where, 'arg', a.expr)
        return self.read_view(ret)

    def t_lambda(self, e, sc, where):
        s2 = Scope(sc, 'lambda', e)
        for p in e.params:
            self.declare(s2, p.name, p, where)
        w = where + '/' + e.name
        if self.lang == 'java':
            self.boundaries.append(s2)
        try:
            bt = self.typeof(e.body, s2, w, self.S(e.ret_type)) if e.body is not None else None
        finally:
            if self.lang == 'java':
                self.boundaries.pop()
        rt = self.S(e.ret_type)
        if rt is not None and not self.is_void(rt):
            self.assignable(bt, rt, w, 'ret', e.body)
        return self.S(e.signature)

    def t_cond(self, e, sc, where, expected):
        ast = self.ast
        self.typeof(e.cond, sc, where)
        s_true, s_false = Scope(sc), Scope(sc)
        if isinstance(e.cond, ast.Is) and isinstance(e.cond.lexpr, ast.Variable):
            tgt = s_false if e.cond.operator.is_not else s_true
            tgt.casts[e.cond.lexpr.name] = self.S(e.cond.rexpr)
        rec = self.S(e.inferred_type)
        exp = expected if expected is not None else rec
        for br, s in ((e.true_branch, s_true), (e.false_branch, s_false)):
            bt = self.typeof(br, s, where, expected)
            if expected is not None:
                self.assignable(bt, exp, where, 'branch', br)
            # without a context (receiver position, statement) a compiler types the
            # conditional with the least upper bound of its branches; the recorded type is
            # only the generator's hint and is reported as a diagnostic counter below
            if rec is not None and bt is not BOTTOM and bt is not None:
                self.stats['cond_recorded_checked'] += 1
                if self.sub(bt if bt[0] != 'W' else (bt[2] or bt), rec) is False:
                    self.stats['cond_recorded_not_upper_bound'] += 1
        return rec

    def t_block(self, e, sc, where, expected):
        s2 = Scope(sc)
        t = self.void
        for i, st in enumerate(e.body):
            t = self.typeof(st, s2, where, expected if i == len(e.body) - 1 else None)
        return t

    def t_assign(self, e, sc, where):
        ast = self.ast
        tt = None
        self.stats['oblig_resolve-assignment'] += 1
        if e.receiver is None:
            d, ds = sc.lookup(e.name)
            if d is None or isinstance(d, (ast.FunctionDeclaration, ast.ClassDeclaration)):
                self.report('C05', 'unresolved-variable', where,
                            'assigned variable %s is not visible here' % e.name, 'Assignment')
                self.typeof(e.expr, sc, where)
                return self.void
            if getattr(d, 'is_final', True) or isinstance(d, ast.ParameterDeclaration):
                self.report('C05', 'assigns-final', where,
                            '%s %s is final but assigned' % (type(d).__name__, e.name),
                            type(d).__name__)
            tt = self.decl_type(d)
        else:
            rt = self.typeof(e.receiver, sc, where)
            if rt is not BOTTOM and rt is not None:
                r = self.class_of(rt)
                if r:
                    fm = self.find_member(r[0], r[1], e.name, 'field')
                    if fm is None:
                        self.report('C05', 'unresolved-field', where,
                                    '%s has no field %s (assignment)' % (tstr(rt), e.name),
                                    'Assignment')
                    else:
                        if fm[0].is_final:
                            self.report('C05', 'assigns-final', where,
                                        'field %s.%s is final but assigned' % (
                                            fm[2].name, e.name), 'FieldDeclaration')
                        tt = self.S(fm[0].field_type)
                        tt = refrel.subst(tt, fm[1]) if fm[1] else tt
                        if tt is not None and tt[0] == 'W':
                            tt = tt[2] if tt[1] == refrel.CONTRA else None
                        elif tt is not None and refrel.has_wild(tt):
                            pass
        self.assignable(self.typeof(e.expr, sc, where, tt), tt, where, 'assign', e.expr)
        return self.void

    # -- declarations ----------------------------------------------------------------------
    def check_var(self, v, sc, where):
        w = where + '/' + v.name
        if self.infer and v.var_type is None:
            # inference mode: the variable has the type of its initialiser (typed without
            # an expected type); undetermined -> fall back to the recorded type
            if id(v) not in self.inferred:
                n0 = len(self.viol)
                it = self.typeof(v.expr, sc, w, None)
                del self.viol[n0:]          # the initialiser is judged once, below
                if it is not None and it is not BOTTOM:
                    it = self.read_view(it) if it[0] == 'W' else it
                if it is not None and it is not BOTTOM and not self.is_void(it):
                    self.inferred[id(v)] = it
                    self.stats['inferred_variable_types'] += 1
            it = self.typeof(v.expr, sc, w, self.inferred.get(id(v)))
            return
        if v.var_type is not None:
            self.wf(self.S(v.var_type), w)
        t = self.S(v.var_type if v.var_type is not None else v.inferred_type)
        it = self.typeof(v.expr, sc, w, t)
        self.assignable(it, t, w, 'init', v.expr)

    def check_func(self, f, sc, where):
        ast = self.ast
        s2 = Scope(sc, 'function', f)
        self.tvars.append({p.name for p in f.type_parameters})
        try:
            for p in f.type_parameters:
                if p.bound is not None:
                    self.wf(self.S(p.bound), where)
            for p in f.params:
                self.wf(self.S(p.param_type), where + '/' + p.name)
                if p.default is not None:
                    pt = self.S(p.param_type)
                    self.assignable(self.typeof(p.default, sc, where, pt), pt, where, 'default',
                                    p.default)
                self.declare(s2, p.name, p, where)
            rt = self.S(f.ret_type if f.ret_type is not None else f.inferred_type)
            if f.ret_type is not None:
                self.wf(rt, where)
            if f.body is None:
                return
            nested = self.lang == 'java' and sc.kind in ('function', 'block', 'lambda')
            if nested:
                self.boundaries.append(s2)
            try:
                bt = self.typeof(f.body, s2, where, rt)
            finally:
                if nested:
                    self.boundaries.pop()
            if rt is not None and not self.is_void(rt):
                self.assignable(bt, rt, where, 'ret', f.body)
        finally:
            self.tvars.pop()

    def check_class(self, c, gsc):
        ast = self.ast
        where = 'global/' + c.name
        sc = Scope(gsc, 'class', c)
        self.tvars.append({p.name for p in c.type_parameters})
        try:
            # members incl. inherited ones are visible unqualified inside the class
            chain = []
            cd, m = c, {}
            depth = 0
            while cd is not None and depth < 40:
                chain.append(cd)
                nxt = None
                for s in cd.superclasses:
                    r = self.class_of(refrel.subst(self.S(s.class_type), m)
                                      if m else self.S(s.class_type))
                    if r is not None:
                        nxt = r
                        break
                if nxt is None:
                    break
                cd, m = nxt
                depth += 1
            for cd in reversed(chain):
                for f in cd.fields:
                    sc.names[f.name] = f
                for fn in cd.functions:
                    sc.names[fn.name] = fn
            seen = set()
            for d in list(c.fields) + list(c.functions):
                if d.name in seen:
                    self.report('C05', 'duplicate-identifier', where,
                                'member %s is declared twice in class %s' % (d.name, c.name),
                                'class')
                seen.add(d.name)
            for p in c.type_parameters:
                if p.bound is not None:
                    self.wf(self.S(p.bound), where)
            for f in c.fields:
                self.wf(self.S(f.field_type), where + '/' + f.name)
            # superclasses
            for s in c.superclasses:
                st = self.S(s.class_type)
                self.wf(st, where)
                r = self.class_of(st)
                self.stats['oblig_resolve-superclass'] += 1
                if r is None:
                    if st[0] in ('C', 'P') and st[1] not in self.tb.classes:
                        self.report('C05', 'unresolved-class', where,
                                    'superclass %s does not exist' % tstr(st), 'super')
                    continue
                sd, m = r
                self.stats['oblig_final-super'] += 1
                if sd.is_final and not sd.is_interface():
                    self.report('C01', 'final-super', where,
                                '%s inherits from final class %s' % (c.name, sd.name), 'super')
                if s.args is not None and not sd.is_interface():
                    if len(s.args) != len(sd.fields):
                        self.report('C05', 'constructor-arity', where,
                                    'super constructor %s called with %d arguments, it has %d '
                                    'fields' % (sd.name, len(s.args), len(sd.fields)), 'super')
                    else:
                        for a, f in zip(s.args, sd.fields):
                            ft = self.S(f.field_type)
                            ft = refrel.subst(ft, m) if m else ft
                            self.assignable(self.typeof(a, gsc, where, ft), ft, where,
                                            'super-arg', a)
            # inheritance obligations
            self.check_inheritance(c, chain, where)
            for fn in c.functions:
                self.check_func(fn, sc, where + '/' + fn.name)
        finally:
            self.tvars.pop()

    def check_inheritance(self, c, chain, where):
        ast = self.ast
        if c.class_type == ast.ClassDeclaration.REGULAR:
            # every abstract function of the chain must be implemented somewhere below it
            self.stats['oblig_abstract-impl'] += 1
            implemented = set()
            for cd in chain:
                for fn in cd.functions:
                    if fn.body is not None:
                        implemented.add(fn.name)
                    elif fn.name not in implemented:
                        self.report('C01', 'abstract-impl', where,
                                    'regular class %s does not implement abstract %s.%s' % (
                                        c.name, cd.name, fn.name), 'abstract')
                        implemented.add(fn.name)
        own = {fn.name: fn for fn in c.functions}
        for cd in chain[1:]:
            for fn in cd.functions:
                o = own.get(fn.name)
                if o is None:
                    continue
                self.stats['oblig_override'] += 1
                if len(o.params) != len(fn.params):
                    self.report('C01', 'override', where,
                                '%s.%s overrides %s.%s with a different number of parameters' % (
                                    c.name, o.name, cd.name, fn.name), 'arity')
                if fn.is_final and fn.body is not None and cd.class_type != \
                        ast.ClassDeclaration.INTERFACE:
                    self.report('C01', 'override', where,
                                '%s.%s overrides final %s.%s' % (c.name, o.name, cd.name, fn.name),
                                'final')
                own.pop(fn.name)

    # -- entry point -------------------------------------------------------------------------
    def run(self, reserved=()):
        ast = self.ast
        gsc = Scope(None, 'global')
        for n, d in self.decls.items():
            gsc.names[n] = d
        reserved = set(reserved)
        self.tvars.append(set())
        if self.infer:
            # global variables are visible in functions declared before them: infer first
            for n, d in self.decls.items():
                if isinstance(d, ast.VariableDeclaration) and d.var_type is None:
                    n0 = len(self.viol)
                    it = self.typeof(d.expr, gsc, 'global/' + n, None)
                    del self.viol[n0:]
                    if it is not None and it is not BOTTOM:
                        it = self.read_view(it) if it[0] == 'W' else it
                    if it is not None and it is not BOTTOM and not self.is_void(it):
                        self.inferred[id(d)] = it
        for n, d in self.decls.items():
            if isinstance(d, ast.VariableDeclaration):
                self.check_var(d, gsc, 'global')
            elif isinstance(d, ast.FunctionDeclaration):
                self.check_func(d, gsc, 'global/' + n)
            elif isinstance(d, ast.ClassDeclaration):
                self.check_class(d, gsc)
        if reserved:
            from sim import walk
            for node, path, parents in walk.iter_nodes(self.p):
                nm = getattr(node, 'name', None)
                if isinstance(node, ast.Declaration) and isinstance(nm, str) and nm in reserved:
                    self.report('C05', 'reserved-word', path,
                                '%s %r is a reserved word of %s' % (
                                    type(node).__name__, nm, self.lang), type(node).__name__)
        return self
