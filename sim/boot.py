"""Process bootstrap shared by every check.

* re-exec under PYTHONHASHSEED=0 (str-hash order feeds random.choice in the code
  under test: list(set_of_types), tuple(WORDS) ...)
* seed the *global* random module before `src.utils` is imported (the word pool is
  sampled at import time from the global module)
* put the tree under test (VERIF_REPO or /repo) first on sys.path
"""
import os
import sys

VERIF = os.path.dirname(os.path.dirname(os.path.abspath(__file__)))
REPO = os.environ.get('VERIF_REPO', '/repo')


SHIM_SRC = os.path.join(VERIF, 'native', 'chunkcache.c')
SHIM = os.path.join(VERIF, 'build', 'chunkcache.so')


def build_shim():
    """Optional speed-up only (see native/chunkcache.c); absence changes no result."""
    import subprocess
    if os.path.exists(SHIM) and os.path.getmtime(SHIM) >= os.path.getmtime(SHIM_SRC):
        return True
    os.makedirs(os.path.dirname(SHIM), exist_ok=True)
    tmp = SHIM + '.%d.tmp' % os.getpid()
    for cc in ('gcc', 'cc', 'clang'):
        try:
            r = subprocess.run([cc, '-O2', '-shared', '-fPIC', '-o', tmp, SHIM_SRC],
                               capture_output=True, timeout=120)
        except Exception:   # noqa
            continue
        if r.returncode == 0:
            os.replace(tmp, SHIM)
            return True
    return False


def reexec_if_needed():
    if os.environ.get('PYTHONHASHSEED') != '0' or 'VERIF_REEXEC' not in os.environ:
        env = dict(os.environ)
        env['PYTHONHASHSEED'] = '0'
        env['VERIF_REEXEC'] = '1'
        env.setdefault('PYTHONDONTWRITEBYTECODE', '1')
        if not env.get('VERIF_NO_SHIM') and build_shim():
            pre = env.get('LD_PRELOAD', '')
            if SHIM not in pre:
                env['LD_PRELOAD'] = (SHIM + ' ' + pre).strip()
        os.execve(sys.executable, [sys.executable] + sys.argv, env)


_booted = False


def boot(argv0='hephaestus.py'):
    """Import the code under test. Idempotent."""
    global _booted
    if _booted:
        return
    _booted = True
    import random
    random.seed(0)
    sys.dont_write_bytecode = True
    if REPO in sys.path:
        sys.path.remove(REPO)
    sys.path.insert(0, REPO)
    if VERIF not in sys.path:
        sys.path.insert(1, VERIF)
    # src.args parses sys.argv at import time
    saved = sys.argv
    sys.argv = [argv0, '--iterations', '1', '--bugs', '/nonexistent-verif-bugs',
                '--name', 'boot', '--language', 'java', '--transformations', '0']
    try:
        import src.ir.ast  # noqa: F401  (must precede src.ir.context)
        import src.ir.context  # noqa: F401
        import src.utils  # noqa: F401
        import src.generators.generator  # noqa: F401
        import src.transformations.type_erasure  # noqa: F401
        import src.transformations.type_overwriting  # noqa: F401
        import src.translators.java  # noqa: F401
        import src.translators.kotlin  # noqa: F401
        import src.translators.groovy  # noqa: F401
        import src.translators.scala  # noqa: F401
    finally:
        sys.argv = saved


def scratch_root():
    base = '/dev/shm' if os.path.isdir('/dev/shm') and os.access('/dev/shm', os.W_OK) \
        else os.environ.get('TMPDIR', '/tmp')
    d = os.path.join(base, 'verifscratch')
    os.makedirs(d, exist_ok=True)
    return d
