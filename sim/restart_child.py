"""Fresh-interpreter side of the restart fault (P6/P7): started with exec, it has
nothing of the run but the dump file and a JSON task; prints one JSON line.

    python -m sim.restart_child <task.json>
"""
import json
import os
import sys
import types as _types

sys.path.insert(0, os.path.dirname(os.path.dirname(os.path.abspath(__file__))))
from sim import boot  # noqa: E402


def main():
    task = json.load(open(sys.argv[1]))
    boot.boot()
    from sim import pipeline, snap
    from sim.core import Sim, apply_config, SimAbort
    from src import utils
    from src.modules.processor import ProgramProcessor
    c = task['config']
    lang = c['language']
    out = {'texts': {}, 'errors': []}
    # phase 1 (load, translate, re-dump) draws from a throw-away PRNG: the Java and Groovy
    # translators call program.get_types(), which consumes random choices
    sim = Sim(task['run_seed'], tape=None, buggify=False,
              budget=task.get('budget', 6_000_000), language=lang)
    sim.install(lang)
    if task.get('hash_counter'):
        sim.set_hash_counter(task['hash_counter'])
    apply_config(c)
    # the real --replay path of the driver
    args = _types.SimpleNamespace(
        replay=task['bin'], debug=False, log=False, transformation_types=['TypeErasure'],
        transformations=0, transformation_schedule=None, language=lang,
        name='restart', test_directory=os.path.dirname(task['bin']),
        options={'Generator': {}, 'Translator': {'cast_numbers': bool(c.get('cast_numbers'))},
                 'TypeErasure': {'timeout': c.get('timeout', 600)},
                 'TypeOverwriting': {'timeout': c.get('timeout', 600)}})
    proc = ProgramProcessor(1, args)
    program, oracle = proc.get_program()
    out['oracle'] = oracle
    T = pipeline.translators()
    opts = {'cast_numbers': bool(c.get('cast_numbers'))}
    for l in ('java', 'kotlin', 'groovy', 'scala'):
        try:
            out['texts'][l] = utils.translate_program(T[l]('src.pkg', dict(opts)), program)
        except SimAbort:
            raise
        except Exception as e:   # noqa
            out['texts'][l] = 'EXC ' + type(e).__name__
    out['digest'] = snap.digest(snap.asnap(program))
    # dump again: stable?
    again = task['bin'] + '.again'
    utils.dump_program(again, program)
    p2 = utils.load_program(again)
    os.unlink(again)
    out['digest_again'] = snap.digest(snap.asnap(p2))
    # reverse index of the context answers for every declaration
    ctx = program.context
    missing = 0
    ndecl = 0
    for ns, ents in ctx._context.items():
        for kind in ('funcs', 'vars', 'classes'):
            for name, d in ents[kind].items():
                if d is None:
                    continue
                ndecl += 1
                if ctx.get_namespace(d) is None:
                    missing += 1
    out['reverse_missing'] = missing
    out['ndecl'] = ndecl
    # remaining mutations under the same tape continuation
    stages = []
    if task.get('continue'):
        from sim.core import SimRandom, h64
        sim.rand = SimRandom(sim, utils.random, h64(task['run_seed'], 'tape'),
                             tape=task.get('tape'), strict=True, buggify=False)
        if task.get('hash_counter'):
            sim.set_hash_counter(task['hash_counter'])
        from src.transformations.type_erasure import TypeErasure
        from src.transformations.type_overwriting import TypeOverwriting
        tr = T[lang]('src.pkg', dict(opts))
        o = {'timeout': c.get('timeout', 600)}
        try:
            for kind in task['continue']:
                cls = TypeErasure if kind == 'TypeErasure' else TypeOverwriting
                t = cls(program, lang, None, dict(o))
                t.transform()
                program = t.result()
                with sim.rand.paused():
                    text = utils.translate_program(tr, program)
                stages.append({'kind': kind, 'is_transformed': bool(t.is_transformed),
                               'error_injected': getattr(t, 'error_injected', None),
                               'text': text})
        except SimAbort as e:
            out['errors'].append('sim:%s:%s' % (type(e).__name__, e))
        except Exception as e:   # noqa
            out['errors'].append('exc:' + pipeline.exc_brief(e))
    out['stages'] = stages
    from sim import core as _core
    if _core.TRACE is not None:
        with open('/tmp/trace_child_%s.txt' % os.path.basename(task['bin']), 'w') as f:
            f.write('\n'.join(_core.TRACE))
    out['tape_used'] = len(sim.rand.tape)
    print(json.dumps(out))


if __name__ == '__main__':
    main()
