"""Provenance tags: which routine of the code under test created an object.
Used only to build violation signatures and details, never in a verdict."""
import sys


def _creator(skip=2, n=4):
    f = sys._getframe(skip)
    out = []
    while f is not None and len(out) < n:
        fn = f.f_code.co_filename
        if '/src/' in fn and not fn.endswith('/copy.py'):
            name = f.f_code.co_name
            if name not in ('__init__', '<listcomp>', '<dictcomp>', '<genexpr>', '<lambda>'):
                out.append('%s:%s' % (fn.rsplit('/', 1)[-1][:-3], name))
        f = f.f_back
    return '<'.join(out) or '?'


def install():
    """wrap WildCardType.__init__ and TypeParameter.__init__ so each object carries
    `_prov` = innermost named routines that created it"""
    from src.ir import types as tp
    if getattr(tp, '_verif_prov', False):
        return
    tp._verif_prov = True
    for cls in (tp.WildCardType, tp.TypeParameter):
        orig = cls.__init__

        def make(orig):
            def __init__(self, *a, **kw):
                orig(self, *a, **kw)
                self.__dict__['_prov'] = _creator()
            return __init__
        cls.__init__ = make(orig)


def of(obj, n=4):
    p = getattr(obj, '__dict__', {}).get('_prov', '?')
    return '<'.join(p.split('<')[:n])
