"""Declarative subtype relation and substitution on structural snapshots (sim/snap.tsnap).

Independent of the code under test: reads class declarations as data, never calls
is_subtype / substitute_type / find_* / unify_types.

Rules (Kotlin-spec containment, as cited by src/ir/types.py):
  bottom <: everything; reflexive; S <: top for every reference type;
  a type variable is below whatever its bound is below (top if unbounded);
  nominal step: C<args> <: U[params := args] for each declared supertype U of C;
  same constructor: argument-wise containment under the declared variance.
"""
from sim.snap import tsnap, vval

INV, COV, CONTRA = 0, 1, 2


class Unknown(Exception):
    pass


class CInfo:
    __slots__ = ('name', 'params', 'supers', 'kind', 'final', 'decl', 'builtin')

    def __init__(self, name, params, supers, kind=0, final=True, decl=None, builtin=False):
        self.name = name
        self.params = params      # [(name, variance, bound snapshot)]
        self.supers = supers      # [snapshot]
        self.kind = kind          # 0 regular, 1 interface, 2 abstract
        self.final = final
        self.decl = decl
        self.builtin = builtin


def strip(s):
    """normal form used for equality: builtins are identified by their class (int and
    Integer are one type for the relation, exactly as in the IR)"""
    if s is None:
        return None
    k = s[0]
    if k == 'B':
        return ('B', s[1])
    if k == 'P':
        return ('P', s[1], tuple(strip(a) for a in s[2]))
    if k == 'V':
        return ('V', s[1])
    if k == 'W':
        return ('W', s[1], strip(s[2]))
    return s


class Table:
    """class table: user classes of one program + the language's built-in types"""

    def __init__(self, factory, class_decls=(), implicit_top=True):
        self.implicit_top = implicit_top
        self.classes = {}
        self.bsupers = {}      # builtin class name -> [snapshots of declared supertypes]
        self.top = tsnap(factory.get_any_type())
        self.topname = self.top[1]
        self.lang = factory.get_language()
        self._read_builtins(factory)
        for d in class_decls:
            self.add_class(d)

    def _read_builtins(self, factory):
        seen = set()
        stack = list(factory.get_non_nothing_types()) + [factory.get_void_type()]
        try:
            stack += list(factory.get_function_types(4))
        except Exception:   # noqa
            pass
        while stack:
            t = stack.pop()
            s = tsnap(t)
            if s[0] == 'B':
                if s[1] in seen:
                    continue
                seen.add(s[1])
                sup = [x for x in list(getattr(t, 'supertypes', ()) or ())]
                # primitives carry no supertypes as data: use the boxed instance's
                if getattr(t, 'primitive', False) and hasattr(t, 'box_type'):
                    try:
                        sup = list(t.box_type().supertypes)
                    except Exception:   # noqa
                        sup = []
                self.bsupers[s[1]] = [tsnap(x) for x in sup]
                stack.extend(sup)
            elif s[0] == 'TC':
                if t.name in self.classes:
                    continue
                self.classes[t.name] = CInfo(
                    t.name, [(p.name, vval(p.variance), tsnap(p.bound)) for p in t.type_parameters],
                    [tsnap(x) for x in t.supertypes], builtin=True)
                stack.extend(t.supertypes)

    def add_class(self, d):
        self.classes[d.name] = CInfo(
            d.name, [(p.name, vval(p.variance), tsnap(p.bound)) for p in d.type_parameters],
            [tsnap(s.class_type) for s in d.superclasses], kind=d.class_type,
            final=d.is_final, decl=d)

    def add_type(self, t):
        """learn a class from a live type object (built-in constructors that no factory
        method hands out, e.g. Kotlin's specialised arrays; classes of in-run monitors)"""
        from src.ir import types as tp
        s = tsnap(t)
        if s is None or s[0] not in ('P', 'TC', 'C') or s[1] in self.classes:
            return
        if isinstance(t, tp.ParameterizedType):
            tc = t.t_constructor
            self.classes[s[1]] = CInfo(
                s[1], [(p.name, vval(p.variance), tsnap(p.bound)) for p in tc.type_parameters],
                [tsnap(x) for x in tc.supertypes], builtin=type(tc).__name__ != 'TypeConstructor')
        elif isinstance(t, tp.TypeConstructor):
            self.classes[s[1]] = CInfo(
                s[1], [(p.name, vval(p.variance), tsnap(p.bound)) for p in t.type_parameters],
                [tsnap(x) for x in t.supertypes], builtin=type(t).__name__ != 'TypeConstructor')
        elif isinstance(t, tp.SimpleClassifier) and not isinstance(t, tp.Builtin):
            self.classes[s[1]] = CInfo(s[1], [], [tsnap(x) for x in t.supertypes])

    def is_top(self, s):
        return s is not None and s[0] == 'B' and s[1] == self.topname


# ---------------------------------------------------------------------------------
def subst(t, m):
    """substitute type variables by name; also inside bounds of variables that are not
    in the map"""
    if t is None or not m:
        return t
    k = t[0]
    if k == 'V':
        r = m.get(t[1])
        if r is not None:
            return r
        if t[3] is not None:
            return ('V', t[1], t[2], subst(t[3], m))
        return t
    if k == 'P':
        return ('P', t[1], tuple(subst(a, m) for a in t[2]))
    if k == 'W':
        if t[2] is None:
            return t
        b = subst(t[2], m)
        if b is not None and b[0] == 'W':
            # a projection substituted into a projection: collapse conservatively
            return b if b[1] == t[1] or b[2] is None else ('W', t[1], b[2])
        return ('W', t[1], b)
    return t


def has_tvars(t):
    if t is None:
        return False
    k = t[0]
    if k == 'V':
        return True
    if k == 'P':
        return any(has_tvars(a) for a in t[2])
    if k == 'W':
        return has_tvars(t[2])
    return False


def has_wild(t):
    if t is None:
        return False
    k = t[0]
    if k == 'W':
        return True
    if k == 'P':
        return any(has_wild(a) for a in t[2])
    if k == 'V':
        return has_wild(t[3])
    return False


def sub(S, T, tb, fuel=60):
    """True / False, raises Unknown where the relation is not determined here"""
    if fuel <= 0:
        raise Unknown('fuel')
    if S is None or T is None:
        raise Unknown('none')
    if S[0] == 'N':
        return True
    if S[0] in ('?', 'DEEP') or T[0] in ('?', 'DEEP'):
        raise Unknown('shape')
    if strip(S) == strip(T):
        return True
    if S[0] == 'TC':
        S = tc_as_p(S, tb)
    if T[0] == 'TC':
        T = tc_as_p(T, tb)
    if S[0] == 'W' or T[0] == 'W':
        raise Unknown('projection at top level')
    if S[0] == 'V':
        if S[3] is None:
            return tb.is_top(T)
        return sub(S[3], T, tb, fuel - 1)
    if T[0] == 'N':
        return False
    if T[0] == 'V':
        return False
    if tb.is_top(T) and tb.implicit_top:
        return True
    if S[0] == 'B':
        sup = tb.bsupers.get(S[1])
        if sup is None:
            raise Unknown('builtin ' + S[1])
        return any(sub(U, T, tb, fuel - 1) for U in sup)
    if S[0] == 'C':
        ci = tb.classes.get(S[1])
        if ci is None:
            raise Unknown('class ' + S[1])
        return any(sub(U, T, tb, fuel - 1) for U in ci.supers)
    if S[0] == 'P':
        ci = tb.classes.get(S[1])
        if ci is None:
            raise Unknown('class ' + S[1])
        if len(ci.params) != len(S[2]):
            raise Unknown('arity ' + S[1])
        if T[0] == 'P' and T[1] == S[1]:
            if len(T[2]) != len(S[2]):
                return False
            if all(contained(a, b, p[1], tb, fuel - 1)
                   for p, a, b in zip(ci.params, S[2], T[2])):
                return True
            return False
        m = {p[0]: a for p, a in zip(ci.params, S[2])}
        for U in ci.supers:
            U2 = subst(U, m)
            if has_wild_arg_subst(U, m):
                # a projection ended up nested in a supertype: capture semantics, undecided
                try:
                    if sub(U2, T, tb, fuel - 1):
                        return True
                except Unknown:
                    pass
                raise Unknown('projection substituted into supertype')
            if sub(U2, T, tb, fuel - 1):
                return True
        return False
    raise Unknown('shape %r' % (S[0],))


def has_wild_arg_subst(U, m):
    return any(v is not None and v[0] == 'W' for v in m.values()) and has_tvars(U)


def tc_as_p(s, tb):
    ci = tb.classes.get(s[1])
    if ci is None:
        raise Unknown('constructor ' + s[1])
    return ('P', s[1], tuple(('V', p[0], p[1], p[2]) for p in ci.params))


def equiv(a, b, tb, fuel):
    if strip(a) == strip(b):
        return True
    return sub(a, b, tb, fuel) and sub(b, a, tb, fuel)


def contained(a, b, var, tb, fuel):
    """is type argument a contained in type argument b for a parameter of declared
    variance var"""
    aw = a is not None and a[0] == 'W'
    bw = b is not None and b[0] == 'W'
    if bw and b[2] is None:
        return True                        # star contains everything
    if aw and a[2] is None:
        if bw and b[1] == COV and tb.is_top(b[2]):
            return True
        return False
    if not aw and not bw:
        if var == INV:
            return equiv(a, b, tb, fuel)
        if var == COV:
            return sub(a, b, tb, fuel)
        return sub(b, a, tb, fuel)
    if bw and not aw:
        if b[1] == COV:
            return sub(a, b[2], tb, fuel)
        if b[1] == CONTRA:
            return sub(b[2], a, tb, fuel)
        return equiv(a, b[2], tb, fuel)
    if aw and bw:
        if a[1] == COV and b[1] == COV:
            return sub(a[2], b[2], tb, fuel)
        if a[1] == CONTRA and b[1] == CONTRA:
            return sub(b[2], a[2], tb, fuel)
        if b[1] == COV and tb.is_top(b[2]):
            return True
        return False
    # projection on the left, plain type on the right: only where the declared variance
    # makes the projection redundant
    if var == COV and a[1] == COV:
        return sub(a[2], b, tb, fuel)
    if var == CONTRA and a[1] == CONTRA:
        return sub(b, a[2], tb, fuel)
    return False


def sub3(S, T, tb):
    """three-valued: True / False / None (undetermined)"""
    try:
        return sub(S, T, tb)
    except Unknown:
        return None
    except RecursionError:
        return None


def upper(t):
    """what a value read at type t can be used as (bound of a projection / variable)"""
    while t is not None and t[0] == 'W':
        if t[2] is None or t[1] == CONTRA:
            return None
        t = t[2]
    return t
