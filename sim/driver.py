"""driver-sim: a whole session of the real hephaestus.py (main -> run / run_parallel)
inside one process, with simulated compiler peer, worker pool, clock and temp dirs."""
import contextlib
import copy
import glob
import io
import os
import random as _pyrandom
import shutil
import sys
import traceback

from sim import boot, simcompiler
from sim.core import Sim, SimAbort, SimClockModule, h64, apply_config

H = None
ALPHA = 'abcdefghijklmnopqrstuvwxyz0123456789_'


def hmod():
    global H
    if H is None:
        saved = sys.argv
        sys.argv = ['hephaestus.py', '--iterations', '1', '--bugs', '/nonexistent-verif-bugs',
                    '--name', 'boot', '--language', 'java', '--transformations', '0']
        try:
            import hephaestus
        finally:
            sys.argv = saved
        H = hephaestus
        H._verif_orig = {k: getattr(H, k) for k in (
            'run_command', 'gen_program', 'mp', 'time', 'tempfile', 'datetime',
            'ProgramProcessor', 'save_stats', 'update_stats')}
    return H


class InjectedFailure(RuntimeError):
    pass


# ---------------------------------------------------------------------------------
class AsyncResult:
    def __init__(self, pool, fn, args, cb, label):
        self.pool, self.fn, self.args, self.cb, self.label = pool, fn, args, cb, label
        self.done = False
        self.val = None
        self.exc = None

    def run(self):
        w = self.pool.enter_worker()
        try:
            self.val = self.fn(*self.args)
        except SimAbort:
            raise
        except Exception as e:   # noqa  (a real Pool ships the exception to get())
            self.exc = e
        finally:
            self.pool.leave_worker(w)
        self.done = True
        if self.cb is not None and self.exc is None:
            self.pool.pending_cb.append(self)

    def get(self, timeout=None):
        while not self.done:
            self.pool.step()
        if self.exc is not None:
            raise self.exc
        return self.val


class SimPool:
    """Tasks and callbacks are events; the seeded scheduler picks which runnable one
    runs next (D8). A task runs to completion once chosen (worker processes of the real
    pool share nothing with each other but the file system)."""

    def __init__(self, session, n):
        self.s = session
        self.n = n
        self.tasks = []
        self.pending_cb = []
        self.closed = False
        # Process separation: a real worker is forked when the pool is created and from then
        # on owns PRIVATE copies of the module state (identifier pool, STOP_COND, STATS);
        # nothing it writes there reaches the parent or another worker, and nothing the
        # parent writes later (e.g. _run's reset_word_pool()) reaches it.  Each simulated
        # worker keeps such an image; it is swapped in around every task it executes.
        self.wsched = _pyrandom.Random(h64(session.run_seed, 'worker'))
        self.images = [self._image() for _ in range(max(1, n))]
        self.tasks_per_worker = [0] * max(1, n)

    @staticmethod
    def _image():
        from src import utils
        Hm = hmod()
        return {'WORDS': set(utils.random.WORDS), 'STOP_COND': Hm.STOP_COND,
                'STATS': copy.deepcopy(Hm.STATS)}

    @staticmethod
    def _install(img):
        from src import utils
        Hm = hmod()
        utils.random.WORDS = img['WORDS']
        Hm.STOP_COND = img['STOP_COND']
        Hm.STATS = img['STATS']

    def enter_worker(self):
        from src import utils
        Hm = hmod()
        w = self.wsched.randrange(len(self.images))
        self.tasks_per_worker[w] += 1
        parent = {'WORDS': utils.random.WORDS, 'STOP_COND': Hm.STOP_COND, 'STATS': Hm.STATS}
        self._install(self.images[w])
        self.s.sim.event('worker %d' % w)
        return (w, parent)

    def leave_worker(self, token):
        from src import utils
        Hm = hmod()
        w, parent = token
        self.images[w] = {'WORDS': utils.random.WORDS, 'STOP_COND': Hm.STOP_COND,
                          'STATS': Hm.STATS}
        self._install(parent)

    def apply_async(self, fn, args=(), kwds=None, callback=None, error_callback=None):
        ar = AsyncResult(self, fn, args, callback, getattr(fn, '__name__', '?'))
        self.tasks.append(ar)
        self.s.sim.event('pool submit %s' % ar.label)
        return ar

    def step(self):
        runnable = [t for t in self.tasks if not t.done][:max(1, self.n)]
        choices = [('task', t) for t in runnable] + [('cb', c) for c in self.pending_cb]
        if not choices:
            raise RuntimeError('SimPool: nothing runnable (deadlock)')
        kind, x = self.s.sched.choice(choices)
        self.s.sched_log.append('%s:%s' % (kind, x.label))
        self.s.sim.event('pool %s %s' % (kind, x.label))
        if kind == 'task':
            x.run()
        else:
            self.pending_cb.remove(x)
            x.cb(x.val)

    def close(self):
        self.closed = True

    def join(self):
        while [t for t in self.tasks if not t.done] or self.pending_cb:
            self.step()

    def terminate(self):
        pass


# ---------------------------------------------------------------------------------
class StubProcessor:
    """Stand-in for src.modules.processor.ProgramProcessor in stub-generator sessions:
    serves a small real IR program, scripted is_transformed / error message."""
    session = None

    def __init__(self, proc_id, args):
        self.proc_id = proc_id
        self.args = args
        self.current_transformation = 0
        self.nrounds = args.transformations or 0
        self.script = self.session.prog_script(proc_id)

    def _fail(self, stage):
        if self.script.get('genfail') == stage:
            self.session.note_genfail(self.proc_id, stage)
            raise InjectedFailure('injected tool failure at %s of program %d' % (
                stage, self.proc_id))

    def get_program(self):
        self._fail('get_program')
        return self.session.fresh_program(), True

    def get_transformations(self):
        from src.transformations.type_erasure import TypeErasure
        return [TypeErasure] * self.current_transformation

    def can_transform(self):
        return self.current_transformation < self.nrounds

    def transform_program(self, program):
        self._fail('transform')
        self.current_transformation += 1
        if self.script.get('transformed', True):
            return program, True
        return None

    def inject_fault(self, program):
        self._fail('inject')
        self.current_transformation += 1
        if not self.script.get('injectable', True):
            return None
        return program, self.session.inject_msg(self.proc_id)


# ---------------------------------------------------------------------------------
class Session:
    """One simulated driver session. plan keys:
       language, mode ('seq'|'pool'), workers, iterations | seconds, batch, t, P, keep_all,
       dry_run, generator ('stub'|'real'), max_depth, programs: {pid: {genfail, injectable,
       correct_errors, incorrect_errors, transformed}}, batches: {k: {crash, noise, interleave,
       duration}}, filter (bool)
    """

    def __init__(self, run_seed, plan, sim):
        self.run_seed = run_seed
        self.plan = plan
        self.sim = sim
        self.sched = _pyrandom.Random(h64(run_seed, 'sched'))
        self.crnd = _pyrandom.Random(h64(run_seed, 'compiler'))
        self.sched_log = []
        self.results = {}          # pid -> ProgramRes (as returned by gen_program)
        self.genfail = {}          # pid -> stage
        self.compiles = []         # ground truth per compiler invocation
        self.updates = []          # (totals, nfaults keys, batch) at every save_stats
        self.dirs = 0
        self.exc = None
        self.stdout = ''
        self.root = os.path.join(boot.scratch_root(), 'drv%dx%x' % (os.getpid(),
                                                                    run_seed & 0xffffffff))
        self._prog_bytes = None
        self.ncompiler_calls = 0
        self.words_drawn = {}      # pid -> (identifiers drawn by gen_program, pool size afterwards)
        self.pool_size = None

    # -- scripts ----------------------------------------------------------------------
    def prog_script(self, pid):
        return self.plan['programs'].get(str(pid), {})

    def batch_script(self, k):
        return self.plan['batches'].get(str(k), {})

    def inject_msg(self, pid):
        return 'Foo%d expected but Bar%d found in node global/x%d' % (pid, pid, pid)

    def note_genfail(self, pid, stage):
        self.genfail[pid] = stage

    def fresh_program(self):
        import pickle
        if self._prog_bytes is None:
            from src.generators.generator import Generator
            from src.generators.config import cfg
            old = cfg.limits.max_depth
            cfg.limits.max_depth = 1
            try:
                p = Generator(language=self.plan['language']).generate()
            finally:
                cfg.limits.max_depth = old
            self._prog_bytes = pickle.dumps(p)
        return pickle.loads(self._prog_bytes)

    # -- seams ------------------------------------------------------------------------
    def _mkdtemp(self, *a, **k):
        self.dirs += 1
        r = _pyrandom.Random(h64(self.run_seed, 'tmp', self.dirs))
        d = os.path.join(self.root, 'tmp' + ''.join(r.choice(ALPHA) for _ in range(8)))
        os.makedirs(d)
        self.sim.event('mkdtemp %d' % self.dirs)
        return d

    def _run_command(self, arguments, get_stdout=True):
        lang = self.plan['language']
        if len(arguments) == 2 and arguments[1] == '-version':
            return True, '%s 1.0-sim\n' % arguments[0]
        self.ncompiler_calls += 1
        k = self.ncompiler_calls
        bs = self.batch_script(k)
        pattern = arguments[-1] if lang != 'kotlin' else arguments[1]
        if lang == 'kotlin':
            files = sorted(glob.glob(os.path.join(pattern, '*', '*.kt')))
        else:
            files = sorted(glob.glob(pattern))
        truth = {}
        owner = {}
        for pid, res in self.results.items():
            if res.failed:
                continue
            for f, oracle in res.stats['programs'].items():
                owner[f] = (pid, oracle)
        for f in files:
            pid, oracle = owner.get(f, (None, None))
            if pid is None:
                truth[f] = []
                continue
            ps = self.prog_script(pid)
            n = ps.get('correct_errors', 0) if oracle else ps.get('incorrect_errors', 1)
            truth[f] = [simcompiler.make_message(lang, self.crnd) for _ in range(n)]
        order = list(truth.items())
        self.crnd.shuffle(order)
        crash = bs.get('crash')
        text = simcompiler.render(lang, order, self.crnd, noise=bs.get('noise', 0.0),
                                  crash=crash, interleave=bs.get('interleave', False))
        self.sim.now += bs.get('duration', 1.0)
        self.compiles.append({'k': k, 'files': files, 'truth': truth, 'crash': crash,
                              'owner': {f: owner.get(f) for f in files}})
        self.sim.event('compile %d files=%d crash=%s errs=%d' % (
            k, len(files), crash, sum(len(v) for v in truth.values())))
        ok = not crash and not any(truth.values())
        return ok, text

    # -- run --------------------------------------------------------------------------
    def run(self):
        Hm = hmod()
        from src import utils
        p = self.plan
        a = Hm.cli_args
        shutil.rmtree(self.root, ignore_errors=True)
        os.makedirs(self.root)
        lang = p['language']
        a.language = lang
        a.bugs = os.path.join(self.root, 'bugs')
        a.name = 'sess'
        a.test_directory = os.path.join(a.bugs, a.name)
        a.iterations = p.get('iterations')
        a.seconds = p.get('seconds')
        a.stop_cond = 'timeout' if a.seconds else 'iterations'
        a.batch = p.get('batch', 1)
        a.transformations = p.get('t', 0)
        a.transformation_types = ['TypeErasure']
        a.transformation_schedule = None
        a.only_correctness_preserving_transformations = bool(p.get('P'))
        a.keep_all = bool(p.get('keep_all'))
        a.dry_run = bool(p.get('dry_run'))
        a.workers = p.get('workers') if p.get('mode') == 'pool' else None
        a.debug = False
        a.rerun = False
        a.replay = None
        a.examine = False
        a.log = False
        a.print_stacktrace = bool(p.get('print_stacktrace'))
        a.log_file = os.path.join(self.root, 'logs')
        a.error_filter_patterns = ''
        if p.get('filter'):
            fp = os.path.join(self.root, 'filters')
            with open(fp, 'w') as f:
                f.write(p['filter'] + '\n')
            a.error_filter_patterns = fp
        a.max_depth = p.get('max_depth', 2)
        a.options = {'Generator': {}, 'Translator': {'cast_numbers': False},
                     'TypeErasure': {'timeout': 600}, 'TypeOverwriting': {'timeout': 600}}
        apply_config({'max_depth': a.max_depth})
        if p.get('word_pool'):
            # knob: a small identifier pool, so that a short session stands for a long one
            R = utils.random
            rr = _pyrandom.Random(h64(self.run_seed, 'wordpool'))
            R.INITIAL_WORDS = set(rr.sample(sorted(R.INITIAL_WORDS),
                                            min(p['word_pool'], len(R.INITIAL_WORDS))))
            R.WORDS = set(R.INITIAL_WORDS)
        self.pool_size = len(utils.random.INITIAL_WORDS)
        # fresh session state
        Hm.STOP_COND = False
        Hm.STATS['Info'] = {'stop_cond': a.stop_cond,
                            'stop_cond_value': a.seconds if a.seconds else a.iterations,
                            'transformations': a.transformations,
                            'transformation_types': 'TypeErasure', 'bugs': a.bugs,
                            'name': a.name, 'language': lang}
        Hm.STATS['totals'] = {'passed': 0, 'failed': 0}
        Hm.STATS['time'] = 0
        Hm.STATS['compilation_time'] = 0
        Hm.STATS['faults'] = {}
        O = Hm._verif_orig
        sess = self

        def gen_program(pid, dirname, packages):
            from sim.core import OPC
            start = len(sess.sim.rand.tape)
            r = O['gen_program'](pid, dirname, packages)
            sess.results[pid] = r
            sess.words_drawn[pid] = (
                sum(1 for e in sess.sim.rand.tape[start:] if e[0] == OPC['word']),
                len(utils.random.WORDS))
            sess.sim.event('gen %d failed=%s' % (pid, r.failed))
            return r

        def save_stats():
            O['save_stats']()
            t = Hm.STATS['totals']
            sess.updates.append((t['passed'], t['failed'], sorted(Hm.STATS['faults'])))

        class MP:
            @staticmethod
            def Pool(n=None):
                return SimPool(sess, n or 1)

        class TF:
            mkdtemp = staticmethod(self._mkdtemp)

        class DT:
            @staticmethod
            def now():
                class _N:
                    @staticmethod
                    def strftime(fmt):
                        return '01/01/2026 00:00:00'
                return _N()

        Hm.gen_program = gen_program
        Hm.save_stats = save_stats
        Hm.run_command = self._run_command
        Hm.mp = MP
        Hm.tempfile = TF
        Hm.time = SimClockModule(self.sim)
        Hm.datetime = DT
        if p.get('generator', 'stub') == 'stub':
            StubProcessor.session = self
            Hm.ProgramProcessor = StubProcessor
        else:
            Hm.ProgramProcessor = self._real_processor(O['ProgramProcessor'])
        buf = io.StringIO()
        try:
            with contextlib.redirect_stdout(buf):
                Hm.main()
        except SimAbort:
            raise
        except BaseException as e:   # noqa  (SystemExit included: the session died)
            self.exc = e
        finally:
            for k, v in O.items():
                setattr(Hm, k, v)
            self.stdout = buf.getvalue()
        return self

    def _real_processor(self, PP):
        sess = self

        class RealProcessor(PP):
            def _fail(self, stage):
                if sess.prog_script(self.proc_id).get('genfail') == stage:
                    sess.note_genfail(self.proc_id, stage)
                    raise InjectedFailure('injected tool failure at %s of program %d' % (
                        stage, self.proc_id))

            def get_program(self):
                self._fail('get_program')
                return super().get_program()

            def transform_program(self, program):
                self._fail('transform')
                return super().transform_program(program)

            def inject_fault(self, program):
                self._fail('inject')
                return super().inject_fault(program)
        return RealProcessor

    def cleanup(self):
        shutil.rmtree(self.root, ignore_errors=True)

    def tree(self):
        """sorted relative listing of the sandbox"""
        out = []
        for d, dirs, files in os.walk(self.root):
            dirs.sort()
            rel = os.path.relpath(d, self.root)
            for f in sorted(files):
                out.append(os.path.normpath(os.path.join(rel, f)))
            if not dirs and not files:
                out.append(os.path.normpath(rel) + '/')
        return out


def exc_brief(e):
    fr = traceback.extract_tb(e.__traceback__)
    mine = [f for f in fr if f.filename.endswith('hephaestus.py') or '/src/' in f.filename]
    loc = ['%s:%s' % (f.filename.split('/')[-1], f.name) for f in mine[-3:]]
    return '%s: %s @ %s' % (type(e).__name__, str(e)[:200], '<'.join(reversed(loc)))
