"""Determinism self-test and setup smoke test.

    python -m sim.selftest --quick            (setup_cmd: imports, shim, 48-seed determinism)
    python -m sim.selftest --n 2000 [--check c18] [--fresh 40]

Every seed is executed twice in different worker processes, in a different order and
at a different worker count (history independence), and a subset a third time in a
fresh interpreter (exec) under strict replay of the recorded tape.  Event-log digests
(tape + every text + every timer/clock event) must agree.
"""
import argparse
import importlib
import json
import os
import subprocess
import sys

sys.path.insert(0, os.path.dirname(os.path.dirname(os.path.abspath(__file__))))
from sim import boot  # noqa: E402


def main():
    ap = argparse.ArgumentParser()
    ap.add_argument('--quick', action='store_true')
    ap.add_argument('--n', type=int, default=48)
    ap.add_argument('--check', default='c18')
    ap.add_argument('--fresh', type=int, default=4)
    ap.add_argument('--seed', type=int, default=0)
    ap.add_argument('--one', help='internal: run one seed, print digest')
    a = ap.parse_args()
    boot.reexec_if_needed()
    boot.boot()
    from sim import runner
    from sim.core import h64
    check = importlib.import_module('checks.' + a.check).CHECK
    if a.one:
        res = check.run_one(int(a.one), None)
        print(json.dumps({'digest': res.get('digest'), 'status': res.get('status')}))
        return 0
    # known findings file must parse
    kf = os.path.join(boot.VERIF, 'known_findings.json')
    if os.path.exists(kf):
        data = json.load(open(kf))
        for e in data.get('findings', []):
            assert e['status'] in ('known', 'fixed'), e
            assert 'property' in e and 'id' in e and 'description' in e, e
    seeds = [h64(a.seed, 'selftest', i) for i in range(a.n)]
    A = runner.run_many(check.run_one, [(s, None) for s in seeds], workers=16, timeout=600)
    order = list(range(len(seeds)))[::-1]
    B = runner.run_many(check.run_one, [(seeds[i], None) for i in order], workers=5,
                        timeout=600, recycle=7)
    bad = 0
    for j, i in enumerate(order):
        ra, rb = A[i], B[j]
        if ra.get('digest') != rb.get('digest') or ra.get('status') != rb.get('status') \
                or 'harness_error' in ra or 'harness_error' in rb:
            bad += 1
            print('DIVERGED seed=%s %s/%s %s/%s %s' % (
                seeds[i], ra.get('status'), rb.get('status'), ra.get('digest'),
                rb.get('digest'), ra.get('harness_error') or rb.get('harness_error') or ''))
    nf = 0
    for i in range(min(a.fresh, len(seeds))):
        env = dict(os.environ)
        out = subprocess.run([sys.executable, '-m', 'sim.selftest', '--check', a.check,
                              '--one', str(seeds[i])], cwd=boot.VERIF, env=env,
                             capture_output=True, text=True, timeout=900)
        try:
            d = json.loads(out.stdout.strip().splitlines()[-1])
        except Exception:   # noqa
            d = {'digest': 'ERR ' + out.stderr[-300:]}
        nf += 1
        if d.get('digest') != A[i].get('digest'):
            bad += 1
            print('DIVERGED(fresh interpreter) seed=%s %s vs %s' % (
                seeds[i], d.get('digest'), A[i].get('digest')))
    st = {}
    for r in A:
        st[r.get('status')] = st.get(r.get('status'), 0) + 1
    print('selftest check=%s seeds=%d twice + %d fresh interpreters: divergences=%d status=%s' % (
        a.check, len(seeds), nf, bad, st))
    return 1 if bad else 0


if __name__ == '__main__':
    sys.exit(main())
