"""Scripted compiler peer: prints output in the format of the selected compiler for a
ground-truth map file -> [error messages].  Templates written from the real output
formats of javac 17, kotlinc 1.x, groovyc 4 (--compile-static) and scalac 3.

The peer only emits constructs the real compilers emit; every template kind is listed
in TEMPLATES so that the evidence can name them.
"""

MESSAGES = {
    'java': [
        'incompatible types: {a} cannot be converted to {b}',
        'cannot find symbol',
        'incompatible types: inference variable T has incompatible bounds',
        'method {m} in class {a} cannot be applied to given types;',
        'type argument {a} is not within bounds of type-variable T',
        'incompatible types: bad return type in lambda expression',
        "variable {m} might not have been initialized",
        '{a} is abstract; cannot be instantiated',
    ],
    'kotlin': [
        'type mismatch: inferred type is {a} but {b} was expected',
        'unresolved reference: {m}',
        "type argument is not within its bounds: should be subtype of '{b}'",
        'not enough information to infer type variable T',
        "none of the following functions can be called with the arguments supplied:",
        "val cannot be reassigned",
    ],
    'groovy': [
        '[Static type checking] - Cannot assign value of type {a} to variable of type {b}',
        '[Static type checking] - Cannot find matching method {a}#{m}({b}). Please check if '
        'the declared type is correct and if the method exists.',
        '[Static type checking] - Incompatible generic argument types. Cannot assign {a} to: {b}',
        '[Static type checking] - Cannot return value of type {a} for method returning {b}',
        'unexpected token: {m}',
    ],
    'scala': [
        'Found:    ({m} : {a})\n  |               Required: {b}',
        'Not found: {m}',
        'Type argument {a} does not conform to upper bound {b}',
        'missing argument for parameter {m} of constructor {a}',
        'value {m} is not a member of {a}',
    ],
}
SCALA_KINDS = ['[E007] Type Mismatch Error', '[E006] Not Found Error', '[E057] Type Mismatch Error',
               'Error', '[E008] Not Found Error', '[E171] Type Error']
WARNINGS = {
    'java': ['{p}:{l}: warning: [unchecked] unchecked cast\n        {src}\n            ^\n',
             'Note: Some input files use unchecked or unsafe operations.\n'
             'Note: Recompile with -Xlint:unchecked for details.\n',
             'Note: {p} uses or overrides a deprecated API.\n',
             "warning: [options] bootstrap class path not set in conjunction with -source 11\n"],
    'kotlin': ['{p}:{l}:{c}: warning: unchecked cast: {a} to {b}\n{src}\n    ^\n',
               "{p}:{l}:{c}: warning: parameter '{m}' is never used\n",
               'warning: some JAR files in the classpath have the Kotlin Runtime library bundled '
               'into them. This may cause difficult to debug problems\n',
               "{p}:{l}:{c}: warning: variable '{m}' is never used\n"],
    'groovy': ['Picked up JAVA_TOOL_OPTIONS: -Xmx8g\n',
               'WARNING: An illegal reflective access operation has occurred\n'
               'WARNING: All illegal access operations will be denied in a future release\n'],
    'scala': ['-- Warning: {p}:{l}:{c} ------------------------------------------------\n'
              '{l} |{src}\n  |    ^\n  |    unused value\n',
              '-- [E129] Potential Issue Warning: {p}:{l}:{c} ----------------------\n'
              '{l} |{src}\n  |  ^\n  |  A pure expression does nothing in statement position\n',
              'there was 1 deprecation warning; re-run with -deprecation for details\n'],
}
TEMPLATES = ['error diagnostic (1..4 per file)', 'quoted source line + caret', 'warning diagnostic',
             'note / classpath warning / tool banner', 'error-count summary',
             'files reported in any order', 'one file reported in non-adjacent blocks',
             'compiler-internal stack trace (alone, or after / before / between complete diagnostic blocks)',
             'groovy StackOverflowError form',
             'symbol/location continuation lines (javac)', 'explanation lines (scalac)']

CRASHES = {
    'java': 'An exception has occurred in the compiler (17.0.8). Please file a bug against the '
            'Java compiler via the Java bug reporting page (http://bugreport.java.com) after '
            'checking the Bug Database (http://bugs.java.com) for duplicates. Include your program, '
            'the following diagnostic, and the parameters passed to the Java compiler in your '
            'report. Thank you.\n'
            'java.lang.NullPointerException: Cannot invoke "com.sun.tools.javac.code.Type.'
            'getTypeArguments()" because "t" is null\n'
            '\tat jdk.compiler/com.sun.tools.javac.comp.Infer.instantiateAsUninferredVars(Infer.java:1)\n'
            '\tat jdk.compiler/com.sun.tools.javac.comp.Attr.visitApply(Attr.java:2)\n'
            '\tat jdk.compiler/com.sun.tools.javac.main.Main.compile(Main.java:3)\n',
    'kotlin': 'exception: org.jetbrains.kotlin.backend.common.BackendException: Backend Internal '
              'error: Exception during IR lowering\nFile being compiled: {p}\n'
              'The root cause java.lang.RuntimeException was thrown at: '
              'org.jetbrains.kotlin.backend.jvm.codegen.FunctionCodegen.generate(FunctionCodegen.kt:50)\n'
              '\tat org.jetbrains.kotlin.backend.common.CodegenUtil.reportBackendException(CodegenUtil.kt:239)\n'
              '\tat org.jetbrains.kotlin.cli.jvm.K2JVMCompiler.doExecute(K2JVMCompiler.kt:1)\n',
    'groovy': '>>> a serious error occurred: BUG! exception in phase \'instruction selection\' in '
              'source unit \'{p}\' unexpected NullPointerException\n>>> stacktrace:\n'
              'BUG! exception in phase \'instruction selection\' in source unit \'{p}\' unexpected '
              'NullPointerException\n'
              '\tat org.codehaus.groovy.control.CompilationUnit$ISourceUnitOperation.doPhaseOperation(CompilationUnit.java:905)\n'
              '\tat org.codehaus.groovy.control.CompilationUnit.compile(CompilationUnit.java:627)\n'
              'Caused by: java.lang.NullPointerException\n'
              '\tat org.codehaus.groovy.transform.stc.StaticTypeCheckingVisitor.visitMethodCallExpression(StaticTypeCheckingVisitor.java:1)\n',
    'groovy_so': 'Exception in thread "main" java.lang.StackOverflowError\n'
                 '\tat org.apache.groovy.util.concurrent.ManagedIdentityConcurrentMap.get(ManagedIdentityConcurrentMap.java:1)\n'
                 '\tat java.base/java.util.HashMap.hash(HashMap.java:340)\n',
    'scala': 'exception occurred while typechecking {p}\n\n'
             '  An unhandled exception was thrown in the compiler.\n'
             '  Please file a crash report here:\n'
             '  https://github.com/lampepfl/dotty/issues/new/choose\n\n'
             'Exception in thread "main" java.lang.AssertionError: assertion failed: '
             'TypeBounds(TypeRef(NoPrefix,type T))\n'
             '\tat scala.runtime.Scala3RunTime$.assertFailed(Scala3RunTime.scala:8)\n'
             '\tat dotty.tools.dotc.core.Types$TypeBounds.<init>(Types.scala:5174)\n'
             '\tat dotty.tools.dotc.typer.Typer.typed(Typer.scala:3)\n',
}
NAMES = ['Foo', 'Bar', 'Baz', 'Integer', 'String', 'Qux', 'Number', 'Long']
IDS = ['x', 'y', 'foo', 'bar', 'value', 'it']


def make_message(lang, rnd):
    t = rnd.choice(MESSAGES[lang])
    return t.format(a=rnd.choice(NAMES), b=rnd.choice(NAMES), m=rnd.choice(IDS))


def source_line(path, line, rnd):
    """a real line of the file where possible (quoted source lines are noise the analysis
    must not mistake for a diagnostic)"""
    try:
        with open(path) as f:
            lines = f.read().split('\n')
        lines = [x for x in lines if x.strip()]
        if lines:
            return lines[min(len(lines) - 1, line % len(lines))][:120]
    except OSError:
        pass
    return '    %s %s = %s;' % (rnd.choice(NAMES), rnd.choice(IDS), rnd.choice(IDS))


def render(lang, truth, rnd, noise=0.0, crash=None, interleave=False, crash_pos=None):
    """truth: ordered dict/list of (path, [messages]).  Returns the compiler's text.
    `crash`: None | 'trace' | 'so' (groovy StackOverflowError form).
    `crash_pos` (trace form only): None = the trace alone; 'after' / 'before' / 'middle' = the
    compiler had already printed (goes on printing) the diagnostics of `truth` when it died --
    the trace stands after / before / between complete diagnostic blocks."""
    items = list(truth.items()) if isinstance(truth, dict) else list(truth)
    if crash:
        p = items[0][0] if items else '/tmp/tmpabc/src/pkg/Main.java'
        key = 'groovy_so' if (crash == 'so' and lang == 'groovy') else lang
        pre = ''
        if rnd.random() < noise and WARNINGS[lang]:
            pre = _warn(lang, p, rnd)
        trace = CRASHES[key].format(p=p)
        if crash_pos and key == lang:
            blocks = _diag_blocks(lang, [(pa, m) for pa, ms in items for m in ms], rnd, 0.0)
            if blocks:
                head = ''
                if lang == 'groovy':
                    head = ('org.codehaus.groovy.control.MultipleCompilationErrorsException: '
                            'startup failed:\n')
                k = {'after': len(blocks), 'before': 0}.get(crash_pos, rnd.randint(1, len(blocks)))
                return pre + head + ''.join(blocks[:k]) + trace + ''.join(blocks[k:])
        return pre + trace
    # diagnostics: list of (path, message) blocks, optionally interleaved across files
    blocks = []
    for path, msgs in items:
        for m in msgs:
            blocks.append((path, m))
    if interleave and len(blocks) > 2:
        # keep per-file order, mix files (a file may be reported in non-adjacent blocks)
        by = {}
        for p, m in blocks:
            by.setdefault(p, []).append(m)
        keys = list(by)
        blocks = []
        while keys:
            k = rnd.choice(keys)
            blocks.append((k, by[k].pop(0)))
            if not by[k]:
                keys.remove(k)
    out = []
    nerr = len(blocks)
    if lang == 'groovy' and nerr:
        out.append('org.codehaus.groovy.control.MultipleCompilationErrorsException: '
                   'startup failed:\n')
    out.extend(_diag_blocks(lang, blocks, rnd, noise))
    if rnd.random() < noise:
        out.append(_warn(lang, items[0][0] if items else '/x/src/a/Main.java', rnd))
    if nerr:
        if lang == 'java':
            out.append('%d error%s\n' % (nerr, '' if nerr == 1 else 's'))
        elif lang == 'groovy':
            out.append('%d error%s\n\n' % (nerr, '' if nerr == 1 else 's'))
        elif lang == 'scala':
            out.append('%d error%s found\n' % (nerr, '' if nerr == 1 else 's'))
    return ''.join(out)


def _diag_blocks(lang, blocks, rnd, noise):
    """one text block per (path, message) diagnostic, in the compiler's format"""
    res = []
    for path, m in blocks:
        out = []
        line = rnd.randint(1, 400)
        col = rnd.randint(1, 80)
        src = source_line(path, line, rnd)
        if rnd.random() < noise:
            out.append(_warn(lang, path, rnd))
        if lang == 'java':
            out.append('%s:%d: error: %s\n' % (path, line, m))
            out.append('%s\n%s^\n' % (src, ' ' * rnd.randint(0, 30)))
            if 'cannot find symbol' in m or rnd.random() < 0.2:
                out.append('  symbol:   variable %s\n  location: class %s\n' % (
                    rnd.choice(IDS), rnd.choice(NAMES)))
        elif lang == 'kotlin':
            out.append('%s:%d:%d: error: %s\n' % (path, line, col, m))
            if rnd.random() < 0.8:
                out.append('%s\n%s^\n' % (src, ' ' * rnd.randint(0, 30)))
        elif lang == 'groovy':
            out.append('%s: %d: %s\n @ line %d, column %d.\n   %s\n   %s^\n\n' % (
                path, line, m, line, col, src.strip(), ' ' * rnd.randint(0, 20)))
        else:
            kind = rnd.choice(SCALA_KINDS)
            head = '-- %s: %s:%d:%d ' % (kind, path, line, col)
            body = m.replace('-', ' ')   # scalac bodies are indented prose
            src2 = src.replace('-', ' ')
            out.append('%s%s\n%d |%s\n  |%s^\n  |               %s\n' % (
                head, '-' * max(3, 80 - len(head)), line, src2, ' ' * rnd.randint(0, 20), body))
            if rnd.random() < 0.3:
                out.append('  |\n  | longer explanation available when compiling with `explain`\n')
        res.append(''.join(out))
    return res


def _warn(lang, path, rnd):
    w = rnd.choice(WARNINGS[lang])
    line = rnd.randint(1, 300)
    return w.format(p=path, l=line, c=rnd.randint(1, 60), a=rnd.choice(NAMES),
                    b=rnd.choice(NAMES), m=rnd.choice(IDS),
                    src=source_line(path, line, rnd).replace('-', ' ') if lang == 'scala'
                    else source_line(path, line, rnd))
