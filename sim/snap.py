"""Structural snapshots of IR objects by attribute reading only.

Nothing here calls a method of the code under test (no __eq__, __hash__, __str__,
is_subtype ...): objects are identified by class name and by their attributes.

tsnap(t)   light type snapshot used by the reference relation
               ('B', builtin-class, primitive) | ('C', name) | ('P', name, args)
               ('V', name, variance, bound) | ('W', variance, bound) | ('N',) | ('TC', name)
deep(t)    deep type snapshot incl. constructor parameters and supertypes
asnap(o)   labelled snapshot of any AST object graph: (class, ((field, value), ...))
adiff(a,b) list of (path, old, new) leaf differences of two labelled snapshots
"""
import hashlib

SKIP_ATTRS = {'_vh', '_prov'}
_TYPES = None


def _T():
    global _TYPES
    if _TYPES is None:
        from src.ir import types as tp
        _TYPES = tp
    return _TYPES


def vval(v):
    return getattr(v, 'value', v)


def is_nothing(t):
    tp = _T()
    return isinstance(t, tp.NothingType) or (
        isinstance(t, tp.Builtin) and type(t).__name__ == 'NothingType')


def tsnap(t, depth=0):
    tp = _T()
    if t is None:
        return None
    if depth > 30:
        return ('DEEP',)
    if isinstance(t, tp.WildCardType):
        return ('W', vval(t.variance), tsnap(t.bound, depth + 1))
    if isinstance(t, tp.TypeParameter):
        return ('V', t.name, vval(t.variance), tsnap(t.bound, depth + 1))
    if isinstance(t, tp.ParameterizedType):
        return ('P', _cname(t.t_constructor, t.name),
                tuple(tsnap(a, depth + 1) for a in t.type_args))
    if isinstance(t, tp.TypeConstructor):
        return ('TC', _cname(t, t.name))
    if is_nothing(t):
        return ('N',)
    if isinstance(t, tp.Builtin):
        return ('B', type(t).__name__, bool(getattr(t, 'primitive', False)))
    if isinstance(t, tp.SimpleClassifier):
        return ('C', t.name)
    return ('?', type(t).__name__, getattr(t, 'name', None))


def _cname(tc, name):
    # Kotlin's IntArray & co. are instantiations of a constructor that is also called
    # "Array" but is a different class from Array<T>
    if type(tc).__name__ == 'SpecializedArrayType':
        return name + '#specialized'
    return name


def deep(t, depth=0, memo=None):
    """deep snapshot: everything a later reader of the type could observe"""
    tp = _T()
    if t is None:
        return None
    if memo is not None:
        k = id(t)
        if k in memo:
            return memo[k]
    if depth > 24:
        return ('DEEP',)
    d = depth + 1
    if isinstance(t, tp.WildCardType):
        r = ('W', vval(t.variance), deep(t.bound, d, memo))
    elif isinstance(t, tp.TypeParameter):
        r = ('V', t.name, vval(t.variance), deep(t.bound, d, memo))
    elif isinstance(t, tp.ParameterizedType):
        tc = t.t_constructor
        r = ('P', t.name, tuple(deep(a, d, memo) for a in t.type_args),
             bool(t.__dict__.get('_can_infer_type_args', False)),
             tuple(deep(p, d, memo) for p in tc.type_parameters),
             tuple(deep(s, d, memo) for s in _lst(t.supertypes)),
             tuple(deep(s, d, memo) for s in _lst(tc.supertypes)))
    elif isinstance(t, tp.TypeConstructor):
        r = ('TC', t.name, tuple(deep(p, d, memo) for p in t.type_parameters),
             tuple(deep(s, d, memo) for s in _lst(t.supertypes)))
    elif is_nothing(t):
        r = ('N',)
    elif isinstance(t, tp.Builtin):
        r = ('B', type(t).__name__, bool(getattr(t, 'primitive', False)), t.name)
    elif isinstance(t, tp.SimpleClassifier):
        r = ('C', t.name, tuple(deep(s, d, memo) for s in _lst(t.supertypes)))
    else:
        r = ('?', type(t).__name__, getattr(t, 'name', None))
    if memo is not None:
        memo[id(t)] = r
    return r


def _lst(x):
    if isinstance(x, (set, frozenset)):
        return sorted(x, key=lambda o: repr(tsnap(o)))
    return list(x or ())


# ---------------------------------------------------------------------------------
# labelled snapshots of AST graphs
# ---------------------------------------------------------------------------------
def asnap(o, memo=None, depth=0, keep=None):
    """Labelled snapshot.  Node objects become (class, ((field, value), ...)) with
    fields sorted by name; types are snapshotted with the same scheme (so a diff can
    point inside them).  `memo` (id -> snapshot) makes shared sub-objects cheap; `keep`
    keeps the objects alive while ids are in use."""
    tp = _T()
    if memo is None:
        memo = {}
    if o is None or isinstance(o, (bool, int, float, str)):
        return o
    if depth > 200:
        return ('DEEP',)
    k = id(o)
    if k in memo:
        return memo[k]
    d = depth + 1
    if isinstance(o, (list, tuple)):
        r = ('L', tuple(asnap(x, memo, d) for x in o))
    elif isinstance(o, (set, frozenset)):
        items = [asnap(x, memo, d) for x in o]
        r = ('S', tuple(sorted(items, key=repr)))
    elif isinstance(o, dict):
        items = [(asnap(kk, memo, d), asnap(v, memo, d)) for kk, v in o.items()]
        r = ('D', tuple(sorted(items, key=lambda kv: repr(kv[0]))))
    elif isinstance(o, tp.Variance):
        r = ('Variance', o.value)
    elif type(o).__name__ == 'Program':
        decls = list(o.context._context.get(('global',), {}).get('decls', {}).values())
        ctx = []
        for ns, ents in o.context._context.items():
            ctx.append((ns, tuple((kind, tuple(names)) for kind, names in
                                  sorted((kk, list(vv.keys())) for kk, vv in ents.items()))))
        r = ('Program', (('context', ('L', tuple(ctx))),
                         ('decls', ('L', tuple(asnap(x, memo, d) for x in decls))),
                         ('language', o.language)))
    elif hasattr(o, '__dict__'):
        fields = []
        for name in sorted(o.__dict__):
            if name in SKIP_ATTRS:
                continue
            fields.append((name, asnap(o.__dict__[name], memo, d)))
        r = (type(o).__name__, tuple(fields))
    else:
        r = ('OBJ', type(o).__name__, repr(o))
    memo[k] = r
    return r


def adiff(a, b, path='', out=None, limit=200):
    """leaf-level differences between two labelled snapshots"""
    if out is None:
        out = []
    if len(out) >= limit or a is b:
        return out
    if a == b:
        return out
    if (isinstance(a, tuple) and isinstance(b, tuple) and len(a) == 2 and len(b) == 2
            and isinstance(a[0], str) and a[0] == b[0] and isinstance(a[1], tuple)
            and isinstance(b[1], tuple)):
        kind = a[0]
        if kind in ('L', 'S'):
            if len(a[1]) != len(b[1]):
                out.append((path + '/len', len(a[1]), len(b[1])))
                return out
            for i, (x, y) in enumerate(zip(a[1], b[1])):
                adiff(x, y, '%s[%d]' % (path, i), out, limit)
            return out
        if kind == 'D':
            da, db = dict(a[1]), dict(b[1])
            for kk in sorted(set(da) | set(db), key=repr):
                if kk not in da or kk not in db:
                    out.append(('%s{%r}' % (path, kk), da.get(kk, '<absent>'),
                                db.get(kk, '<absent>')))
                else:
                    adiff(da[kk], db[kk], '%s{%s}' % (path, _short(kk)), out, limit)
            return out
        fa, fb = a[1], b[1]
        if all(isinstance(f, tuple) and len(f) == 2 and isinstance(f[0], str) for f in fa) and \
                [f[0] for f in fa] == [f[0] for f in fb]:
            for (n, x), (_, y) in zip(fa, fb):
                adiff(x, y, '%s/%s:%s' % (path, kind, n), out, limit)
            return out
    out.append((path, a, b))
    return out


def _short(k):
    s = repr(k)
    return s if len(s) < 40 else s[:37] + '...'


def digest(s):
    return hashlib.sha1(repr(s).encode()).hexdigest()[:16]


def tstr(s):
    """pretty printer of light type snapshots (for messages/signatures)"""
    if s is None:
        return '-'
    k = s[0]
    if k == 'B':
        return (s[1].replace('Type', '') + ('!' if s[2] else ''))
    if k == 'C':
        return s[1]
    if k == 'P':
        return '%s<%s>' % (s[1], ', '.join(tstr(a) for a in s[2]))
    if k == 'V':
        return '%s%s%s' % ({0: '', 1: 'out ', 2: 'in '}.get(s[2], '?'), s[1],
                           '' if s[3] is None else ' <: ' + tstr(s[3]))
    if k == 'W':
        if s[2] is None:
            return '*'
        return '%s%s' % ({0: '', 1: 'out ', 2: 'in '}.get(s[1], '?'), tstr(s[2]))
    if k == 'N':
        return 'Nothing'
    if k == 'TC':
        return s[1] + '<..>'
    return repr(s)


def shape(s, depth=0):
    """coarse shape class of a light type snapshot (for signatures)"""
    if s is None:
        return '-'
    k = s[0]
    if k == 'B':
        return 'prim' if s[2] else 'builtin'
    if k == 'P':
        if depth >= 1:
            return 'P'
        return 'P<%s>' % ','.join(shape(a, depth + 1) for a in s[2][:4])
    if k == 'V':
        return 'tvar' + ('' if s[3] is None else '-bounded')
    if k == 'W':
        return {0: 'W', 1: 'Wout', 2: 'Win'}.get(s[1], 'W?') if s[2] is not None else 'star'
    return {'C': 'class', 'N': 'nothing', 'TC': 'tcon'}.get(k, k)


def resolve(root, path):
    """follow an adiff path on the live object graph; returns (parent object, attribute
    name or index, value)"""
    import re
    cur = root
    parent, key = None, None
    for seg in re.findall(r'/[^/\[]+|\[\d+\]|\{[^}]*\}', path):
        if seg.startswith('['):
            i = int(seg[1:-1])
            parent, key = cur, i
            if isinstance(cur, (set, frozenset)):
                return parent, key, None
            cur = list(cur)[i] if not isinstance(cur, (list, tuple)) else cur[i]
        elif seg.startswith('{'):
            return parent, key, None
        else:
            cls, _, attr = seg[1:].partition(':')
            parent, key = cur, attr
            if cls == 'Program' and attr == 'decls':
                cur = list(cur.context._context.get(('global',), {}).get('decls', {}).values())
            elif attr == 'len':
                return parent, key, None
            else:
                cur = cur.__dict__.get(attr)
    return parent, key, cur


def sget(s, path):
    """sub-snapshot of a labelled snapshot at an adiff path (None if absent)"""
    import re
    cur = s
    for seg in re.findall(r'/[^/\[]+|\[\d+\]', path):
        if cur is None:
            return None
        if seg.startswith('['):
            i = int(seg[1:-1])
            if not (isinstance(cur, tuple) and len(cur) == 2 and cur[0] in ('L', 'S')):
                return None
            if i >= len(cur[1]):
                return None
            cur = cur[1][i]
        else:
            cls, _, attr = seg[1:].partition(':')
            if not (isinstance(cur, tuple) and len(cur) == 2 and isinstance(cur[1], tuple)):
                return None
            nxt = None
            for f in cur[1]:
                if isinstance(f, tuple) and len(f) == 2 and f[0] == attr:
                    nxt = f[1]
                    break
            cur = nxt
    return cur
