"""Simulator core: the seams the simulator owns inside one run.

One `Sim` object = one simulated execution.  Everything random is drawn from one
PRNG seeded with `run_seed`; the realised choice tape is the schedule of the run.
"""
import hashlib
import itertools
import os
import random as _pyrandom
import string
import sys

OPS = ('bool', 'word', 'integer', 'char', 'choice', 'sample', 'caps')
OPC = {o: i for i, o in enumerate(OPS)}
TRACE = [] if os.environ.get('VERIF_TRACE_DRAWS') else None
EVENTS = [] if os.environ.get('VERIF_DEBUG_EVENTS') else None


class SimAbort(BaseException):
    """Base of simulator-raised control exceptions (BaseException: no `except
    Exception` in the code under test can swallow them)."""


class SimBudget(SimAbort):
    pass


class SimHang(SimAbort):
    pass


class ReplayDiverged(SimAbort):
    pass


def h64(*parts):
    m = hashlib.sha256(('|'.join(str(p) for p in parts)).encode()).digest()
    return int.from_bytes(m[:8], 'big')


# ---------------------------------------------------------------------------------
# choice tape
# ---------------------------------------------------------------------------------
class SimRandom:
    """Replaces the nine public methods of the live `src.utils.random` instance and
    its inner `.r` (so `utils.random.r.seed()` in gen_program_mul lands here).

    modes
      generate : outcomes from the run PRNG (with buggify bias)
      replay   : outcomes from `tape` (list of [opcode, arity, outcome]); strict ->
                 ReplayDiverged on mismatch; lenient -> continue per `cont`
      cont     : 'prng' | 'default' -- what follows the end of the tape
    """

    def __init__(self, sim, ru, seed, tape=None, strict=True, buggify=True,
                 cont='prng', max_draws=200000):
        self.sim = sim
        self.ru = ru
        self.prng = _pyrandom.Random(seed)
        self.bprng = _pyrandom.Random(seed ^ 0x5bd1e995)
        self.tape = []           # realised [opcode, arity, outcome]
        self.sites = []          # parallel list of (file, line)
        self.src = tape
        self.strict = strict
        self.cont = cont
        self.buggify = buggify
        self.bias = {}
        self.bias_fired = {'P1': 0, 'P2': 0}
        self.max_draws = max_draws
        self.diverged_at = None
        self.prefer = None        # optional scheduler bias: f(site, choices) -> index | None
        self.prefer_fired = 0
        self.side = None          # side PRNG while paused (draws not on the tape)
        self.side_draws = 0
        self._wcache = None
        self._wkey = None
        self.rebind()

    def rebind(self):
        """(re)install this object's methods on the live RandomUtils instance"""
        ru = self.ru
        for name in ('bool', 'word', 'integer', 'char', 'choice', 'sample', 'str',
                     'caps', 'range'):
            setattr(ru, name, getattr(self, name))
        ru.r = self

    # -- core -------------------------------------------------------------------
    @staticmethod
    def _site(depth=2):
        f = sys._getframe(depth)
        return (os.path.basename(f.f_code.co_filename), f.f_lineno)

    def _draw(self, op, arity, site, p_first=None):
        if arity <= 0:
            raise IndexError('Cannot choose from an empty sequence')
        if self.side is not None:
            self.side_draws += 1
            self.sim.work(1)
            if p_first is not None:
                return 0 if self.side.random() < p_first else 1
            return self.side.randrange(arity)
        pos = len(self.tape)
        if pos >= self.max_draws:
            raise SimBudget('draws')
        self.sim.work(1)
        opc = OPC[op]
        out = None
        if self.src is not None:
            if pos < len(self.src):
                o, a, v = self.src[pos]
                if o == opc and a == arity:
                    out = v
                elif self.strict:
                    raise ReplayDiverged('pos %d: tape %s/%s vs run %s/%s at %s' % (
                        pos, OPS[o], a, op, arity, site))
                else:
                    self.diverged_at = pos
                    self.src = self.src[:pos]
            if out is None and self.cont == 'default':
                # simplest legal outcome: bool -> False, anything else -> first
                out = 1 if op == 'bool' else 0
        if out is None:
            if p_first is not None:
                out = 0 if self.prng.random() < p_first else 1
            else:
                out = self._biased(site, arity)
        self.tape.append([opc, arity, out])
        self.sites.append(site)
        return out

    def _biased(self, site, arity):
        if self.buggify and arity > 1:
            b = self.bias.get(site)
            if b is None:
                b = self.bias[site] = self.bprng.choice(['none'] * 30 + ['first', 'last'])
            if b != 'none':
                r = self.prng.random()
                if r < 0.5:
                    self.bias_fired['P2'] += 1
                    return 0 if b == 'first' else arity - 1
        return self.prng.randrange(arity)

    def paused(self):
        """context manager: draws inside come from a side PRNG and leave the tape
        untouched (used for harness-side translations, which call get_types())"""
        rnd = self

        class _P:
            def __enter__(self_):
                self_.prev = rnd.side
                rnd.side = _pyrandom.Random(h64(rnd.sim.run_seed, 'side', rnd.side_draws))

            def __exit__(self_, *a):
                rnd.side = self_.prev
                return False
        return _P()

    # -- RandomUtils API ----------------------------------------------------------
    def bool(self, prob=0.5):
        if prob <= 0:
            return False      # deterministic switches (C17) never enter the tape
        if prob >= 1:
            return True
        site = self._site()
        p = prob
        if self.buggify and self.src is None:
            b = self.bias.get(site)
            if b is None:
                b = self.bias[site] = self.bprng.choice([0] * 13 + [0.15, 0.85])
            if b:
                p = b
                self.bias_fired['P1'] += 1
        return self._draw('bool', 2, site, p_first=p) == 0

    def _words(self):
        w = self.ru.WORDS
        key = (id(w), len(w))
        if self._wkey != key:
            self._wcache = sorted(w)
            self._wkey = key
        return self._wcache

    def word(self):
        words = self._words()
        i = self._draw('word', len(words), self._site())
        w = words.pop(i)
        self.ru.WORDS.remove(w)
        self._wkey = (id(self.ru.WORDS), len(self.ru.WORDS))
        return w

    def integer(self, min_int=0, max_int=10):
        return min_int + self._draw('integer', max_int - min_int + 1, self._site())

    def char(self):
        alpha = string.ascii_letters + string.digits
        return alpha[self._draw('char', len(alpha), self._site())]

    def choice(self, choices):
        if not isinstance(choices, (list, tuple, str, range)):
            choices = list(choices)
        site = self._site()
        forced = None
        if self.prefer is not None and self.src is None and self.side is None and choices:
            forced = self.prefer(site, choices)
        if forced is not None:
            # a directed (still legal) outcome chosen by the scheduler; recorded on the tape
            # like any other draw, so the run replays exactly
            self.prefer_fired += 1
            self.sim.work(1)
            self.tape.append([OPC['choice'], len(choices), forced])
            self.sites.append(site)
            r = choices[forced]
        else:
            r = choices[self._draw('choice', len(choices), site)]
        if TRACE is not None:
            f = sys._getframe(1)
            chain = []
            while f is not None and len(chain) < 5:
                chain.append('%s:%d' % (f.f_code.co_name, f.f_lineno))
                f = f.f_back
            TRACE.append('%d %s %s -> %s' % (len(self.tape) - 1, '<'.join(chain),
                                             [str(x)[:30] for x in choices][-8:], str(r)[:40]))
        return r

    def sample(self, choices, k=None):
        site = self._site()
        if not k:
            k = self._draw('integer', len(choices) + 1, site)
        pool = list(choices)
        if k > len(pool):
            raise ValueError('Sample larger than population or is negative')
        out = []
        for _ in range(k):
            out.append(pool.pop(self._draw('sample', len(pool), site)))
        return out

    def str(self, length=5):
        site = self._site()
        pool = list(string.ascii_letters + string.digits)
        out = []
        for _ in range(length):
            out.append(pool.pop(self._draw('sample', len(pool), site)))
        return ''.join(out)

    def caps(self, length=1, blacklist=None):
        blacklist = blacklist if blacklist is not None else []
        site = self._site()
        if length == 1:
            legal = [c for c in string.ascii_uppercase if c not in blacklist]
            if not legal:
                raise SimHang('caps(): every letter is blacklisted at %s:%d' % site)
            return legal[self._draw('caps', len(legal), site)]
        for _ in range(10000):
            pool = list(string.ascii_uppercase)
            out = []
            for _ in range(length):
                out.append(pool.pop(self._draw('sample', len(pool), site)))
            res = ''.join(out)
            if res not in blacklist:
                return res
        raise SimHang('caps')

    def range(self, from_value, to_value):
        return range(0, from_value + self._draw(
            'integer', to_value - from_value + 1, self._site()))

    # -- inner Random API used by the driver ---------------------------------------
    def seed(self, *a):
        self.sim.event('reseed')

    def random(self):
        return self._draw('integer', 1 << 20, self._site()) / float(1 << 20)

    def digest(self):
        h = hashlib.sha1()
        for (opc, arity, out) in self.tape:
            h.update(b'%d,%d,%d;' % (opc, arity, out))
        return h.hexdigest()[:16]

    def site_features(self):
        """distinct (site, outcome bucket) pairs reached -- coverage measure"""
        feats = set()
        for (opc, arity, out), site in zip(self.tape, self.sites):
            b = 0 if out == 0 else (2 if out == arity - 1 else 1)
            feats.add((site[0], site[1], b))
        return feats


# ---------------------------------------------------------------------------------
# clock + timers
# ---------------------------------------------------------------------------------
class SimClockModule:
    """Stands in for the `time` module inside the code under test."""

    def __init__(self, sim):
        self._sim = sim

    def time(self):
        return self._sim.read_clock()

    def process_time(self):
        return self._sim.read_clock()

    def sleep(self, s):
        self._sim.now += s


class SimTimer:
    def __init__(self, sim, interval, function, args=None, kwargs=None):
        self.sim = sim
        self.interval = interval
        self.function = function
        self.args = args or []
        self.kwargs = kwargs or {}
        self.index = None
        self.deadline = None
        self.fired = False
        self.cancelled = False
        self.start_step = None
        self.fire_at = None

    def start(self):
        sim = self.sim
        self.index = sim.timer_count
        sim.timer_count += 1
        self.deadline = sim.now + self.interval
        self.start_step = sim.steps
        plan = sim.fault_plan.get('timer', {})
        fa = plan.get(str(self.index))
        if fa is not None:
            self.fire_at = self.start_step + int(fa)
        sim.timers.append(self)
        sim.event('timer_start %d' % self.index)

    def cancel(self):
        self.cancelled = True
        if self in self.sim.timers:
            self.sim.timers.remove(self)
        self.sim.event('timer_cancel %d fired=%d' % (self.index or -1, self.fired))

    def _fire(self, why):
        self.fired = True
        self.sim.timers.remove(self)
        self.sim.fault_fired['P4' if why == 'fault' else 'timer_deadline'] += 1
        self.sim.event('timer_fire %d %s step+%d' % (
            self.index, why, self.sim.steps - self.start_step))
        self.function(*self.args, **self.kwargs)


class SimThreadingModule:
    def __init__(self, sim):
        self._sim = sim

    def Timer(self, interval, function, args=None, kwargs=None):
        return SimTimer(self._sim, interval, function, args, kwargs)


# ---------------------------------------------------------------------------------
# the simulation object
# ---------------------------------------------------------------------------------
ALLWORDS = None


class Sim:
    """Owns PRNG, clock, timers, budget, event log for one run."""

    def __init__(self, run_seed, tape=None, strict=True, buggify=True, cont='prng',
                 budget=4_000_000, fault_plan=None, language='java'):
        self.run_seed = run_seed
        self.now = 1_600_000_000.0
        self.steps = 0
        self.work_units = 0
        self.budget = budget
        self.timers = []
        self.timer_count = 0
        self.fault_plan = fault_plan or {}
        self.fault_fired = {'P4': 0, 'P5': 0, 'timer_deadline': 0}
        self.log = hashlib.sha1()
        self.nevents = 0
        self.clock_reads = 0
        self.language = language
        self.rand = None
        self._tape = tape
        self._strict = strict
        self._buggify = buggify
        self._cont = cont
        self.max_nesting = 0
        self.installed = False

    # -- event log (never draws, never reads a real clock) ----------------------
    def event(self, text):
        self.nevents += 1
        self.log.update(text.encode('utf-8', 'replace') + b'\n')
        if EVENTS is not None:
            EVENTS.append('%s @%.3f w=%d' % (text, self.now - 1_600_000_000.0, self.work_units))

    def log_digest(self):
        return self.log.hexdigest()[:16]

    # -- budget / steps ----------------------------------------------------------
    def work(self, n):
        self.work_units += n
        self.now += 0.001 * n if n < 50 else 0.05
        if self.work_units > self.budget:
            raise SimBudget('work units')

    def step(self):
        """A visitor step: pre-emption point for timers."""
        self.steps += 1
        self.work(1)
        if self.timers:
            for t in list(self.timers):
                if t.fire_at is not None and self.steps >= t.fire_at:
                    t._fire('fault')
                elif self.now >= t.deadline:
                    t._fire('deadline')

    def read_clock(self):
        self.clock_reads += 1
        jumps = self.fault_plan.get('clock', {})
        j = jumps.get(str(self.clock_reads))
        if j is not None:
            self.now += j
            self.fault_fired['P5'] += 1
            self.event('clock_jump %s' % j)
        return self.now

    # -- install seams ------------------------------------------------------------
    def install(self, language=None):
        global ALLWORDS
        from src import utils
        from src.ir import node as _node
        from src.ir import visitors as _vis
        import src.transformations.base as _tb
        import copy as _copy

        language = language or self.language
        self.language = language
        sim = self

        # 1. identity hashes -> creation serials (counter reset per run)
        counter = itertools.count(1)

        def _vhash(obj):
            d = obj.__dict__
            v = d.get('_vh')
            if v is None:
                v = d['_vh'] = next(counter)
            return v
        _node.Node.__hash__ = _vhash
        self._hash_counter = counter

        # 2. word pool re-sampled from the run seed, reserved words of the language
        R = utils.random
        if ALLWORDS is None:
            ALLWORDS = utils.read_lines(
                os.path.join(utils.RandomUtils.resource_path, 'words'))
        pool = set(_pyrandom.Random(h64(self.run_seed, 'words')).sample(
            ALLWORDS, utils.RandomUtils.WORD_POOL_LEN))
        R.INITIAL_WORDS = pool
        R.WORDS = set(pool)
        R.remove_reserved_words(language)
        self.rand = SimRandom(self, R, h64(self.run_seed, 'tape'), tape=self._tape,
                              strict=self._strict, buggify=self._buggify,
                              cont=self._cont)
        R.reset_word_pool()

        # 3. clock and timer of the transformations
        _tb.time = SimClockModule(self)
        _tb.threading = SimThreadingModule(self)

        # 4. visitor steps (pre-emption points) + nesting depth
        if not getattr(_vis.ASTVisitor, '_verif_wrapped', False):
            orig_visit = _vis.ASTVisitor.visit

            def visit(vself, node):
                s = Sim.current
                if s is not None:
                    s.step()
                return orig_visit(vself, node)
            _vis.ASTVisitor.visit = visit
            _vis.ASTVisitor._verif_wrapped = True

        # 5. deepcopy work accounting
        if not getattr(_copy, '_verif_wrapped', False):
            real_deepcopy = _copy.deepcopy

            def counted_deepcopy(x, memo=None, _nil=[]):
                s = Sim.current
                if memo is not None or s is None:
                    return real_deepcopy(x, memo)
                m = {}
                r = real_deepcopy(x, m)
                s.work(1 + len(m) // 2)
                return r
            for modname in ('src.ir.types', 'src.ir.ast', 'src.generators.generator',
                            'src.analysis.type_dependency_analysis'):
                mod = sys.modules.get(modname)
                if mod is not None and hasattr(mod, 'deepcopy'):
                    mod.deepcopy = counted_deepcopy
            _copy._verif_wrapped = True

        # 6. the erasure mutation enumerates up to 500 000 subsets per function and tests each
        #    with is_combination_feasible(): that is work
        import src.analysis.type_dependency_analysis as _tda
        if not getattr(_tda, '_verif_wrapped', False):
            real_feasible = _tda.is_combination_feasible

            def counted_feasible(*a, **kw):
                s = Sim.current
                if s is not None:
                    s.work(300)
                return real_feasible(*a, **kw)
            _tda.is_combination_feasible = counted_feasible
            _tda._verif_wrapped = True

        Sim.current = self
        self.installed = True
        return self

    def set_hash_counter(self, start):
        """restart support: continue serial hashes from `start`"""
        from src.ir import node as _node
        counter = itertools.count(start)

        def _vhash(obj):
            d = obj.__dict__
            v = d.get('_vh')
            if v is None:
                v = d['_vh'] = next(counter)
            return v
        _node.Node.__hash__ = _vhash
        self._hash_counter = counter

    def peek_hash_counter(self):
        # itertools.count has no peek; copy via repr
        r = repr(self._hash_counter)   # 'count(123)'
        return int(r[6:-1])


Sim.current = None


# ---------------------------------------------------------------------------------
# swarm configuration
# ---------------------------------------------------------------------------------
LANGS = ('java', 'kotlin', 'groovy', 'scala')


def swarm_config(run_seed, langs=LANGS, max_depth=(1, 7), rounds=(0, 1, 1, 2, 3),
                 switches=True):
    r = _pyrandom.Random(h64(run_seed, 'swarm'))
    cfgd = {
        'language': r.choice(list(langs)),
        'max_depth': r.randint(*max_depth),
        'rounds': r.choice(list(rounds)),
        'dis_usv': switches and r.random() < 0.3,
        'dis_contra': switches and r.random() < 0.3,
        'dis_bounded': switches and r.random() < 0.3,
        'dis_pfunc': switches and r.random() < 0.3,
        'cast_numbers': r.random() < 0.2,
        'timeout': r.choice([600, 600, 1, 5, 60]),
        'buggify': r.random() < 0.6,
    }
    return cfgd


def apply_config(c):
    """Mirror of src/args.py lines 'Set configurations' (the only way the CLI reaches
    the generator's configuration)."""
    from src.generators.config import cfg
    cfg.dis.use_site_variance = bool(c.get('dis_usv'))
    cfg.dis.use_site_contravariance = bool(c.get('dis_contra'))
    cfg.limits.max_depth = int(c.get('max_depth', 6))
    cfg.prob.bounded_type_parameters = 0 if c.get('dis_bounded') else 0.5
    cfg.prob.parameterized_functions = 0 if c.get('dis_pfunc') else 0.3
