"""Base class of the pipeline-sim checks."""
import os
import random as _pyrandom

from sim import core, pipeline
from sim.core import Sim, h64
from sim.runner import in_child


class PipelineCheck:
    ID = None
    LEVEL = 'exploration'
    RULE = ''
    ASSUMPTIONS = []
    PROBES = ()
    COMPONENTS = {
        'real': ['src/generators/*', 'src/ir/*', 'src/analysis/*', 'src/transformations/*',
                 'src/translators/*', 'src/utils.py (RandomUtils word pool, translate_program)'],
        'simulated': ['PRNG (choice tape)', 'time.time / threading.Timer of '
                      'src/transformations/base.py', 'identity hashes of AST nodes'],
        'stub': ['hephaestus.gen_program call pattern is reproduced by sim/pipeline.py',
                 'src/args.py configuration block mirrored by sim.core.apply_config'],
    }
    tiers = {'quick': {'runs': 300, 'wall_s': 100, 'run_timeout_s': 300},
             'thorough': {'runs': 4000, 'wall_s': 1100, 'run_timeout_s': 900}}
    LANGS = core.LANGS
    MAX_DEPTH = (1, 7)
    ROUNDS = (0, 1, 1, 2, 3)
    BUDGET = 1_500_000
    TRANSLATE = True
    TIMER_FAULT_RATE = 0.3

    # -- plan ------------------------------------------------------------------------
    def make_config(self, run_seed):
        return core.swarm_config(run_seed, langs=self.LANGS, max_depth=self.MAX_DEPTH,
                                 rounds=self.ROUNDS)

    def make_faults(self, run_seed, config):
        """timer faults P4: the i-th timer started in the run fires `k` visitor steps
        after its start; clock jumps P5 on the n-th clock read."""
        r = _pyrandom.Random(h64(run_seed, 'faults'))
        plan = {'timer': {}, 'clock': {}}
        ntimers = config.get('rounds', 0) + (0 if config.get('only_cp') else 2)
        for i in range(ntimers):
            if r.random() < self.TIMER_FAULT_RATE:
                plan['timer'][str(i)] = r.choice([0, 1, 2, 5, 20, 100, 400, 2000])
        if r.random() < 0.15:
            n = r.randint(1, max(1, 2 * ntimers))
            plan['clock'][str(n)] = r.choice([config.get('timeout', 600) + 1.0, -30.0, 1e6])
        return plan

    def make_plan(self, run_seed):
        c = self.make_config(run_seed)
        return {'run_seed': run_seed, 'config': c, 'faults': self.make_faults(run_seed, c),
                'tape': None, 'tape_mode': 'generate'}

    # -- one run --------------------------------------------------------------------
    def observer(self, sim, plan):
        return pipeline.Observer()

    def judge(self, run, obs, sim, plan):
        """-> (violations, extra record fields)"""
        return [], {}

    def setup_sim(self, plan):
        mode = plan.get('tape_mode', 'generate')
        tape = plan.get('tape') if mode != 'generate' else None
        c = plan['config']
        sim = Sim(plan['run_seed'], tape=tape, strict=(mode == 'strict'),
                  buggify=bool(c.get('buggify')) and mode == 'generate',
                  cont=plan.get('cont', 'prng'), budget=plan.get('budget', self.BUDGET),
                  fault_plan=plan.get('faults') or {}, language=c['language'])
        sim.install(c['language'])
        return sim

    def run_one(self, run_seed, plan=None):
        if plan is None:
            plan = self.make_plan(run_seed)
        else:
            plan = dict(plan)
            if 'config' not in plan:
                p2 = self.make_plan(plan['run_seed'])
                p2.update(plan)
                plan = p2
        sim = self.setup_sim(plan)
        obs = self.observer(sim, plan)
        run = pipeline.PipelineRun(sim, plan['config'], obs, translate=self.TRANSLATE)
        self.before_run(run, sim, plan)
        if os.environ.get('VERIF_DEBUG_HOOK'):
            # triage aid: a python file executed before the run (instrument, print)
            exec(open(os.environ['VERIF_DEBUG_HOOK']).read(),
                 {'sim': sim, 'run': run, 'plan': plan, 'check': self})
        run.run()
        if os.environ.get('VERIF_DUMP_TEXT') and run.program is not None:
            # debugging aid for replays: the final program's text, off the tape
            from src import utils as _u
            with sim.rand.paused():
                try:
                    t = _u.translate_program(pipeline.translators()[run.language](
                        'src.pkg', {}), run.program)
                except Exception as e:   # noqa
                    t = 'translation failed: %r' % (e,)
            with open(os.environ['VERIF_DUMP_TEXT'], 'w') as f:
                f.write(t)
        try:
            violations, extra = self.judge(run, obs, sim, plan)
        except core.SimBudget:
            # harness-side work (translations, monitors) exhausted the deterministic
            # budget: inconclusive run, never a verdict
            run.status = 'budget'
            violations, extra = [], {}
        except core.ReplayDiverged:
            # a strict replay met different choice points (the code changed since the tape
            # was recorded): the recorded violation is not observed
            run.status = 'diverged'
            violations, extra = [], {}
        rec = {
            'status': run.status,
            'violations': violations,
            'digest': sim.log_digest() + sim.rand.digest(),
            'faults': self.fault_counts(sim, plan),
            'sim_ms': (sim.now - 1_600_000_000.0) * 1000.0,
            'ndraws': len(sim.rand.tape),
            'work': sim.work_units,
            'diverged_at': sim.rand.diverged_at,
            'feature': self.feature(run, sim, plan),
            'site_features': ['%s:%d:%d' % f for f in sim.rand.site_features()]
            if plan.get('want_sites', True) else [],
        }
        rec.update(extra)
        if violations:
            p = dict(plan)
            p['tape'] = sim.rand.tape
            p['tape_mode'] = 'strict'
            rec['plan'] = p
        return rec

    def before_run(self, run, sim, plan):
        pass

    def fault_counts(self, sim, plan):
        c = plan['config']
        f = {'P1_bool_bias': sim.rand.bias_fired['P1'], 'P2_choice_bias': sim.rand.bias_fired['P2'],
             'P3_swarm': 1, 'P4_timer_early': sim.fault_fired['P4'],
             'P5_clock_jump': sim.fault_fired['P5'],
             'timer_deadline': sim.fault_fired['timer_deadline']}
        return {k: v for k, v in f.items() if v}

    def feature(self, run, sim, plan):
        """distinct non-trivial case = distinct (config, tape digest) that reached the
        stage the property is about; default: generation finished."""
        if run.program is None:
            return ''
        return sim.rand.digest()

    # -- minimisation -----------------------------------------------------------------
    def _reproduces(self, plan, sig, timeout=600):
        res = in_child(self.run_one, (plan['run_seed'], plan), timeout=timeout)
        if not isinstance(res, dict) or 'harness_error' in res or res.get('harness_timeout'):
            return None
        if any(v['sig'] == sig for v in res.get('violations') or ()):
            return res
        return None

    def minimise(self, plan, sig, max_exec=40):
        """(1) drop faults, (2) fewer mutation rounds, (3) shortest tape prefix whose
        default/PRNG continuation still shows the same signature. Every candidate is
        re-executed in a forked child; kept only if the same signature persists."""
        execs = [0]

        def attempt(p):
            if execs[0] >= max_exec:
                return None
            execs[0] += 1
            return self._reproduces(p, sig)

        best = dict(plan)
        base = attempt(best)
        if base is None:
            best['note'] = 'strict replay did not reproduce; replay from run_seed'
            best['tape'] = None
            best['tape_mode'] = 'generate'
            return best
        # (1) faults
        f = best.get('faults') or {}
        for kind in ('timer', 'clock'):
            for k in list((f.get(kind) or {})):
                cand = dict(best)
                cf = {kk: dict(vv) for kk, vv in f.items()}
                del cf[kind][k]
                cand['faults'] = cf
                if attempt(cand):
                    best, f = cand, cf
        # (2) rounds
        c = best['config']
        while c.get('rounds', 0) > 0:
            cand = dict(best)
            cc = dict(c)
            cc['rounds'] = c['rounds'] - 1
            cand['config'] = cc
            cand['tape_mode'] = 'lenient'
            r = attempt(cand)
            if not r:
                break
            cand['tape'] = r['plan']['tape']
            cand['tape_mode'] = 'strict'
            best, c = cand, cc
        # (3) tape prefix, binary search, two continuations
        tape = best['tape']
        for cont in ('default', 'prng'):
            lo, hi = 0, len(tape)
            found = None
            while lo < hi and execs[0] < max_exec:
                mid = (lo + hi) // 2
                cand = dict(best)
                cand['tape'] = tape[:mid]
                cand['tape_mode'] = 'lenient'
                cand['cont'] = cont
                r = attempt(cand)
                if r:
                    hi = mid
                    found = r
                else:
                    lo = mid + 1
            if found is not None and len(found['plan']['tape']) < len(best['tape']):
                best = dict(best)
                best['tape'] = found['plan']['tape']
                best['tape_mode'] = 'strict'
                best.pop('cont', None)
                tape = best['tape']
        best['minimise_execs'] = execs[0]
        best['tape_len_original'] = len(plan.get('tape') or ())
        return best
