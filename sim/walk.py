"""Reflective walkers over a finished program (attribute reads only)."""


def _tp():
    from src.ir import types as tp
    return tp


def iter_nodes(program):
    """yield (node, path, parents) for every AST node reachable from the global
    declarations through attributes (not only children(): also defaults, signatures,
    super-class instantiations ...). parents = tuple of enclosing AST nodes."""
    from src.ir.node import Node
    tp = _tp()
    seen = set()
    decls = list(program.context._context.get(('global',), {}).get('decls', {}).values())
    stack = [(d, 'global/%s' % getattr(d, 'name', '?'), ()) for d in reversed(decls)]
    while stack:
        o, path, parents = stack.pop()
        if id(o) in seen:
            continue
        seen.add(id(o))
        yield o, path, parents
        np = parents + (o,)
        items = []
        for name, v in o.__dict__.items():
            if name in ('_vh', '_prov'):
                continue
            if isinstance(v, Node) and not isinstance(v, tp.Type):
                items.append((v, '%s/%s' % (path, name)))
            elif isinstance(v, (list, tuple)):
                for i, x in enumerate(v):
                    if isinstance(x, Node) and not isinstance(x, tp.Type):
                        items.append((x, '%s/%s[%d]' % (path, name, i)))
        for v, p in reversed(items):
            stack.append((v, p, np))


def type_attrs(node):
    """(attr name, type object) for every attribute of an AST node holding a type or a
    list of types"""
    tp = _tp()
    out = []
    for name, v in node.__dict__.items():
        if isinstance(v, tp.Type):
            out.append((name, v))
        elif isinstance(v, (list, tuple)):
            for i, x in enumerate(v):
                if isinstance(x, tp.Type):
                    out.append(('%s[%d]' % (name, i), x))
        elif isinstance(v, dict):
            for k, x in v.items():
                if isinstance(x, tp.Type):
                    out.append(('%s{}' % name, x))
                if isinstance(k, tp.Type):
                    out.append(('%s{k}' % name, k))
    return out


def iter_type_parts(t, path='', depth=0, seen=None):
    """yield (sub-type object, path) for t and everything nested in it: type arguments,
    bounds, constructor parameters, supertypes"""
    tp = _tp()
    if t is None or depth > 16:
        return
    if seen is None:
        seen = set()
    if id(t) in seen:
        return
    seen.add(id(t))
    yield t, path
    if isinstance(t, tp.WildCardType):
        yield from iter_type_parts(t.bound, path + '.bound', depth + 1, seen)
    elif isinstance(t, tp.TypeParameter):
        yield from iter_type_parts(t.bound, path + '.bound', depth + 1, seen)
    elif isinstance(t, tp.ParameterizedType):
        for i, a in enumerate(t.type_args):
            yield from iter_type_parts(a, '%s.arg%d' % (path, i), depth + 1, seen)
        for i, p in enumerate(t.t_constructor.type_parameters):
            yield from iter_type_parts(p, '%s.tparam%d' % (path, i), depth + 1, seen)
        for i, s in enumerate(list(t.supertypes)):
            yield from iter_type_parts(s, '%s.super%d' % (path, i), depth + 1, seen)
    elif isinstance(t, tp.TypeConstructor):
        for i, p in enumerate(t.type_parameters):
            yield from iter_type_parts(p, '%s.tparam%d' % (path, i), depth + 1, seen)
        for i, s in enumerate(list(t.supertypes)):
            yield from iter_type_parts(s, '%s.super%d' % (path, i), depth + 1, seen)
    elif isinstance(t, tp.SimpleClassifier):
        for i, s in enumerate(list(t.supertypes)):
            yield from iter_type_parts(s, '%s.super%d' % (path, i), depth + 1, seen)


def iter_type_occurrences(program):
    """yield (node, attr, root type, part, part path) for every type occurrence"""
    seen_parts = set()
    for node, path, parents in iter_nodes(program):
        for attr, t in type_attrs(node):
            for part, ppath in iter_type_parts(t, '', 0, None):
                yield node, attr, t, part, ppath
