"""In-run monitors for the type-system helpers (C06-C10).

Wrappers are installed once per process and forward to the recorder of the current
run (Recorder.current).  A wrapper never changes arguments or results; it snapshots
them (attribute reads only) and stores the snapshots for the post-run oracle.
Only top-level calls are recorded (helpers call each other recursively).
"""
import random as _pyrandom

from sim import prov, refrel
from sim.snap import tsnap, deep, vval, tstr, shape

_installed = False


class Recorder:
    current = None

    def __init__(self, enable, run_seed=0, cap=6000):
        self.enable = set(enable)
        self.depth = 0
        self.cap = cap
        self.sub = {}          # (S, T) -> (result, kind of call)
        self.sub_calls = 0
        self.c07 = []          # violations found online
        self.c07_calls = {'new': 0, 'substitute_type': 0, 'to_variance_free': 0,
                          'to_type_variable_free': 0, 'perform_type_substitution': 0,
                          'substitute_type_args': 0, 'ledger_checks': 0}
        self.searches = []     # C09 records
        self.inst = []         # C08 records
        self.unif = []         # C10 records
        self.ledger = []       # recent results of new(): (obj, deep snapshot)
        self.receivers = []    # (constructor name, its supertypes, caller) of every new()
        self.rnd = _pyrandom.Random(run_seed ^ 0x9e3779b9)
        self.classes_seen = {}

    def on(self, name):
        return name in self.enable


def _rec():
    r = Recorder.current
    return r


def install():
    global _installed
    if _installed:
        return
    _installed = True
    from src.ir import types as tp, type_utils as tu, builtins as bt
    prov.install()

    # ---- C06: is_subtype -------------------------------------------------------------
    def wrap_sub(cls, attr):
        orig = cls.__dict__.get(attr)
        if orig is None:
            return

        def wrapped(self, other, _orig=orig, _attr=attr):
            r = Recorder.current
            if r is None or not r.on('C06'):
                return _orig(self, other)
            r.depth += 1
            try:
                res = _orig(self, other)
            finally:
                r.depth -= 1
            if r.depth == 0 and _attr == 'is_subtype':
                r.sub_calls += 1
                if len(r.sub) < r.cap:
                    try:
                        k = (tsnap(self), tsnap(other))
                    except Exception:   # noqa
                        return res
                    if k not in r.sub:
                        r.sub[k] = bool(res)
            return res
        setattr(cls, attr, wrapped)
    for cls in (tp.Builtin, tp.SimpleClassifier, tp.TypeParameter, tp.WildCardType,
                tp.TypeConstructor, tp.ParameterizedType, tp.NothingType, bt.NothingType,
                tp.Function, tp.ParameterizedFunction):
        wrap_sub(cls, 'is_subtype')

    # ---- C07: instantiation / substitution ----------------------------------------
    def map_snap(m):
        return tuple(sorted(((deep(k), deep(v)) for k, v in m.items()), key=repr)) if m else ()

    def ledger_probe(r, before):
        """deep snapshots of a few earlier instantiations must survive every later call"""
        if not r.ledger:
            return None
        if before:
            pick = r.rnd.sample(r.ledger, min(3, len(r.ledger)))
            return [(o, s, deep(o)) for (o, s) in pick]
        return None

    def c07_violation(r, rule, what, detail):
        if len(r.c07) < 20:
            r.c07.append({'rule': rule, 'sig': '%s|%s' % (rule, what), 'detail': detail})

    orig_new = tp.TypeConstructor.new

    def new(self, type_args):
        r = Recorder.current
        if r is None or not r.on('C07') or r.depth > 0:
            return orig_new(self, type_args)
        r.depth += 1
        try:
            b_self = deep(self)
            b_args = tuple(deep(a) for a in type_args)
            if len(r.receivers) < 3000:
                r.receivers.append((self.name, tuple(tsnap(x) for x in self.supertypes),
                                    prov._creator(2, 3)))
            probe = ledger_probe(r, True) if r.rnd.random() < 0.1 else None
            in_ok = all(nested_bad(a) is None for a in type_args)
            res = orig_new(self, type_args)
            r.c07_calls['new'] += 1
            if in_ok and not any(refrel.has_tvars(tsnap(a)) for a in type_args):
                bad = nested_bad(res)
                if bad is not None and bad[0] is not res:
                    c07_violation(r, 'new-nested-supertypes', 'TypeConstructor.new',
                                  '%s.new(%s): the nested instantiation %s has supertypes %s, its '
                                  'class declares (after replacing the parameters by its '
                                  'arguments) %s' % (
                                      self.name, ', '.join(map(str, type_args)),
                                      tstr(tsnap(bad[0])), [tstr(x) for x in bad[1]],
                                      [tstr(x) for x in bad[2]]))
            if deep(self) != b_self:
                c07_violation(r, 'new-mutates-constructor', 'TypeConstructor.new',
                              'TypeConstructor %s changed during new(%s)' % (
                                  self.name, ', '.join(map(str, type_args))))
            if tuple(deep(a) for a in type_args) != b_args:
                c07_violation(r, 'new-mutates-argument', 'TypeConstructor.new',
                              'an argument of %s.new(...) changed' % self.name)
            if probe:
                r.c07_calls['ledger_checks'] += len(probe)
                for o, s0, s1 in probe:
                    if deep(o) != s1:
                        c07_violation(r, 'earlier-instantiation-changed', 'TypeConstructor.new',
                                      'an earlier instantiation %s changed during %s.new(...)' % (
                                          o, self.name))
            if deep(res.t_constructor) != b_self:
                c07_violation(r, 'new-result-constructor', 'TypeConstructor.new',
                              'the constructor recorded in %s.new(...) differs from the generic '
                              'class definition (later re-instantiations of the result would '
                              'start from substituted supertypes)' % self.name)
            args_s = [tsnap(a) for a in type_args]
            if not any(refrel.has_tvars(a) for a in args_s):
                _check_new(r, self, type_args, args_s, res, c07_violation)
            if len(r.ledger) < 400:
                r.ledger.append((res, deep(res)))
            return res
        finally:
            r.depth -= 1
    tp.TypeConstructor.new = new

    def _check_new(r, tc, type_args, args_s, res, viol):
        if [tsnap(a) for a in res.type_args] != args_s:
            viol(r, 'new-arguments', 'TypeConstructor.new',
                 '%s.new: result arguments %s differ from the given ones' % (tc.name, res))
            return

        def walk(result_t, def_tc, args, depth):
            """result_t: live instantiation; def_tc: the *definition-side* constructor"""
            if depth > 8:
                return
            m = {p.name: a for p, a in zip(def_tc.type_parameters, args)}
            exp = [refrel.subst(tsnap(u), m) for u in def_tc.supertypes]
            got = [tsnap(u) for u in result_t.supertypes]
            if exp != got:
                viol(r, 'new-supertypes', 'TypeConstructor.new',
                     '%s: supertypes %s, expected %s (depth %d)' % (
                         tstr(tsnap(result_t)), [tstr(g) for g in got],
                         [tstr(e) for e in exp], depth))
                return
            for u_def, u_res, e in zip(def_tc.supertypes, result_t.supertypes, exp):
                if isinstance(u_def, tp.ParameterizedType) and \
                        isinstance(u_res, tp.ParameterizedType):
                    walk(u_res, u_def.t_constructor, list(e[2]), depth + 1)
        walk(res, tc, args_s, 0)

    def nested_bad(t, depth=0, budget=None):
        """first parameterized type nested in t (type arguments, projection bounds,
        supertypes) whose arguments are type-variable-free but whose supertypes are NOT its
        constructor's supertypes with the parameters replaced by those arguments; None if
        every nested instantiation keeps its meaning"""
        if budget is None:
            budget = [60]
        if t is None or depth > 6 or budget[0] <= 0:
            return None
        budget[0] -= 1
        if isinstance(t, tp.WildCardType):
            return nested_bad(t.bound, depth + 1, budget)
        if not isinstance(t, tp.ParameterizedType):
            return None
        args = [tsnap(a) for a in t.type_args]
        tc = t.t_constructor
        if len(tc.type_parameters) == len(args) and not any(refrel.has_tvars(a) for a in args):
            m = {p.name: a for p, a in zip(tc.type_parameters, args)}
            exp = [refrel.subst(tsnap(u), m) for u in tc.supertypes]
            got = [tsnap(u) for u in t.supertypes]
            if exp != got:
                return (t, got, exp)
        for a in t.type_args:
            b = nested_bad(a, depth + 1, budget)
            if b is not None:
                return b
        for u in t.supertypes:
            b = nested_bad(u, depth + 1, budget)
            if b is not None:
                return b
        return None

    def ref_subst_by_snap(t, m):
        if t is None:
            return None
        k = t[0]
        if k == 'V':
            if t in m:
                return m[t]
            if t[3] is not None:
                return ('V', t[1], t[2], ref_subst_by_snap(t[3], m))
            return t
        if k == 'P':
            return ('P', t[1], tuple(ref_subst_by_snap(a, m) for a in t[2]))
        if k == 'W':
            if t[2] is None:
                return t
            return ('W', t[1], ref_subst_by_snap(t[2], m))
        return t

    def _eq_view(t):
        """what the IR's own type equality looks at: name, arguments, supertypes"""
        return (tsnap(t), tuple(tsnap(x) for x in (getattr(t, 'supertypes', None) or ())))

    orig_subst = tp.substitute_type

    def substitute_type(t, type_map):
        r = Recorder.current
        if r is None or not r.on('C07') or r.depth > 0:
            return orig_subst(t, type_map)
        r.depth += 1
        try:
            b_t = deep(t)
            b_m = map_snap(type_map)
            in_ok = nested_bad(t) is None and all(
                nested_bad(x) is None for x in list(type_map.values())[:6])
            res = orig_subst(t, type_map)
            r.c07_calls['substitute_type'] += 1
            if in_ok:
                r.c07_calls['nested-instantiations-keep-supertypes'] = r.c07_calls.get(
                    'nested-instantiations-keep-supertypes', 0) + 1
                bad = nested_bad(res)
                if bad is not None:
                    c07_violation(r, 'substitute-nested-supertypes', 'substitute_type',
                                  'substitute_type(%s, ..) = %s: the nested instantiation %s has '
                                  'supertypes %s, its class declares (after replacing the '
                                  'parameters by its arguments) %s' % (
                                      tstr(tsnap(t)), tstr(tsnap(res)), tstr(tsnap(bad[0])),
                                      [tstr(x) for x in bad[1]], [tstr(x) for x in bad[2]]))
            if deep(t) != b_t:
                c07_violation(r, 'substitute-mutates-type', 'substitute_type',
                              'substitute_type changed its input type %s' % t)
            if map_snap(type_map) != b_m:
                c07_violation(r, 'substitute-mutates-map', 'substitute_type',
                              'substitute_type changed its type map')
            ts = tsnap(t)
            m = {tsnap(k): tsnap(v) for k, v in type_map.items()}
            exp = ref_subst_by_snap(ts, m)
            got = tsnap(res)
            if exp != got:
                c07_violation(r, 'substitute-result', 'substitute_type|' + shape(ts),
                              'substitute_type(%s, {%s}) = %s, reference gives %s' % (
                                  tstr(ts), ', '.join('%s: %s' % (tstr(k), tstr(v))
                                                      for k, v in m.items()),
                                  tstr(got), tstr(exp)))
            if not type_map and (got != ts or _eq_view(res) != _eq_view(t)):
                c07_violation(r, 'substitute-empty-map', 'substitute_type',
                              'substituting with an empty map does not return an equal type: '
                              '%s became %s with supertypes %s (were %s)' % (
                                  tstr(ts), tstr(got),
                                  [tstr(tsnap(x)) for x in getattr(res, 'supertypes', ())],
                                  [tstr(tsnap(x)) for x in getattr(t, 'supertypes', ())]))
            return res
        finally:
            r.depth -= 1
    tp.substitute_type = substitute_type

    for name in ('to_variance_free', 'to_type_variable_free'):
        orig = getattr(tp.ParameterizedType, name)

        def make(orig, name):
            def wrapped(self, *a, **kw):
                r = Recorder.current
                if r is None or not r.on('C07') or r.depth > 0:
                    return orig(self, *a, **kw)
                r.depth += 1
                try:
                    b = deep(self)
                    res = orig(self, *a, **kw)
                    r.c07_calls[name] += 1
                    if deep(self) != b:
                        c07_violation(r, 'conversion-mutates-type', name,
                                      '%s changed its receiver %s' % (name, self))
                    if name == 'to_type_variable_free' and refrel.has_tvars(tsnap(res)):
                        c07_violation(r, 'type-variable-free', name,
                                      '%s(%s) = %s still has type variables' % (
                                          name, self, res))
                    return res
                finally:
                    r.depth -= 1
            return wrapped
        setattr(tp.ParameterizedType, name, make(orig, name))

    # ---- C09: searches ------------------------------------------------------------------
    orig_fs, orig_fsup, orig_fi = tu.find_subtypes, tu.find_supertypes, tu.find_irrelevant_type

    def find_subtypes(etype, types, include_self=False, bound=None, concrete_only=False,
                      ignore_variance=False):
        r = Recorder.current
        if r is None or not r.on('C09') or r.depth > 0:
            return orig_fs(etype, types, include_self, bound, concrete_only, ignore_variance)
        r.depth += 1
        try:
            res = orig_fs(etype, types, include_self, bound, concrete_only, ignore_variance)
        finally:
            r.depth -= 1
        if len(r.searches) < r.cap:
            r.searches.append(('sub', tsnap(etype), [tsnap(x) for x in res],
                               bool(include_self), bool(concrete_only), bool(ignore_variance),
                               prov._creator(2, 2)))
        return res

    def find_supertypes(etype, types, include_self=False, bound=None, concrete_only=False):
        r = Recorder.current
        if r is None or not r.on('C09') or r.depth > 0:
            return orig_fsup(etype, types, include_self, bound, concrete_only)
        r.depth += 1
        try:
            res = orig_fsup(etype, types, include_self, bound, concrete_only)
        finally:
            r.depth -= 1
        if len(r.searches) < r.cap:
            r.searches.append(('super', tsnap(etype), [tsnap(x) for x in res],
                               bool(include_self), bool(concrete_only), False,
                               prov._creator(2, 2)))
        return res

    def find_irrelevant_type(etype, types, factory):
        r = Recorder.current
        if r is None or not r.on('C09') or r.depth > 0:
            return orig_fi(etype, types, factory)
        r.depth += 1
        try:
            res = orig_fi(etype, types, factory)
        finally:
            r.depth -= 1
        if len(r.searches) < r.cap:
            # does the implementation's own judgement relate the answer to the query (read
            # through projections and variable bounds, as the search reads it)?  Asked of the
            # live objects at the moment of the call; kept apart from the reference verdict.
            impl_related = None
            if res is not None:
                r.depth += 1
                try:
                    e = etype
                    for _ in range(8):
                        if e is not None and e.is_wildcard():
                            e = e.get_bound_rec()
                        elif isinstance(e, tp.TypeParameter):
                            e = e.bound
                        else:
                            break
                    if e is not None and not isinstance(e, tp.TypeParameter):
                        impl_related = bool(res.is_subtype(e) or e.is_subtype(res))
                except Exception:   # noqa
                    impl_related = None
                finally:
                    r.depth -= 1
            r.searches.append(('irrelevant', tsnap(etype), [tsnap(res)] if res is not None
                               else [], False, False, False, prov._creator(2, 2),
                               impl_related))
        return res
    tu.find_subtypes, tu.find_supertypes, tu.find_irrelevant_type = \
        find_subtypes, find_supertypes, find_irrelevant_type

    # ---- C08: instantiation helpers --------------------------------------------------
    orig_itc, orig_ipf = tu.instantiate_type_constructor, tu.instantiate_parameterized_function

    def tparams_snap(tps):
        return [(p.name, vval(p.variance), tsnap(p.bound)) for p in tps]

    def instantiate_type_constructor(type_constructor, types, only_regular=True,
                                     type_var_map=None, variance_choices=None,
                                     enable_pecs=True, disable_variance_functions=False,
                                     disable_variance=False):
        r = Recorder.current
        if r is None or not r.on('C08') or r.depth > 0:
            return orig_itc(type_constructor, types, only_regular, type_var_map,
                            variance_choices, enable_pecs, disable_variance_functions,
                            disable_variance)
        pre = {tsnap(k): tsnap(v) for k, v in (type_var_map or {}).items()}
        vc = None if variance_choices is None else {
            k.name: tuple(v) for k, v in variance_choices.items()}
        r.depth += 1
        try:
            res = orig_itc(type_constructor, types, only_regular, type_var_map,
                           variance_choices, enable_pecs, disable_variance_functions,
                           disable_variance)
        finally:
            r.depth -= 1
        if len(r.inst) < r.cap:
            from src.generators.config import cfg
            r.inst.append({
                'kind': 'constructor', 'name': type_constructor.name,
                'params': tparams_snap(type_constructor.type_parameters),
                'args': [tsnap(a) for a in res[0].type_args], 'pre': pre, 'vc': vc,
                'pecs': bool(enable_pecs), 'dvf': bool(disable_variance_functions),
                'dv': bool(disable_variance), 'usv_off': bool(cfg.dis.use_site_variance),
                'contra_off': bool(cfg.dis.use_site_contravariance),
                'caller': prov._creator(2, 2)})
        return res

    def instantiate_parameterized_function(type_parameters, types, only_regular=True,
                                           type_var_map=None):
        r = Recorder.current
        if r is None or not r.on('C08') or r.depth > 0:
            return orig_ipf(type_parameters, types, only_regular, type_var_map)
        pre = {tsnap(k): tsnap(v) for k, v in (type_var_map or {}).items()}
        r.depth += 1
        try:
            res = orig_ipf(type_parameters, types, only_regular, type_var_map)
        finally:
            r.depth -= 1
        if len(r.inst) < r.cap:
            r.inst.append({
                'kind': 'function', 'name': 'fun',
                'params': tparams_snap(type_parameters),
                'args': [tsnap(res.get(p)) for p in type_parameters],
                'result_keys': len(res), 'pre': pre, 'vc': None, 'pecs': False, 'dvf': False,
                'dv': False, 'usv_off': False, 'contra_off': False,
                'caller': prov._creator(2, 2)})
        return res
    tu.instantiate_type_constructor = instantiate_type_constructor
    tu.instantiate_parameterized_function = instantiate_parameterized_function

    # ---- C10: unification -----------------------------------------------------------------
    orig_unify = tu.unify_types

    def unify_types(t1, t2, factory, same_type=True):
        r = Recorder.current
        if r is None or not r.on('C10') or r.depth > 0:
            return orig_unify(t1, t2, factory, same_type)
        r.depth += 1
        try:
            res = orig_unify(t1, t2, factory, same_type)
        finally:
            r.depth -= 1
        if res and len(r.unif) < r.cap:
            r.unif.append((tsnap(t1), tsnap(t2), bool(same_type),
                           [(tsnap(k), tsnap(v)) for k, v in res.items()],
                           prov._creator(2, 2)))
        elif not res:
            r.unif_empty = getattr(r, 'unif_empty', 0) + 1
        return res
    tu.unify_types = unify_types
