"""Batch runner: seeded search over many simulated runs, one forked child per run.

A *check* object provides
    ID, LEVEL ('exploration'|'fault_enumeration'), RULE (str), ASSUMPTIONS (list),
    COMPONENTS (dict), tiers: {'quick': {...}, 'thorough': {...}} with keys
        runs, wall_s (soft: stop dispatching), run_timeout_s (hard safety net)
    run_one(run_seed, plan=None) -> record (JSON-able dict), see below
    minimise(record, rerun) -> plan        (optional)
    finish(agg) -> list of extra violations (optional; batch-level oracles)

record keys
    status        'ok' | 'budget' | 'skip' | 'pipeline_error' ...
    violations    [{'rule','sig','detail'}]
    plan          replayable plan (only needed when violations non-empty)
    digest        event-log digest
    feature       str identifying the distinct non-trivial case ('' = trivial)
    faults        {kind: times fired}
    probes        {name: count}
    obligations   {rule: count}
    sim_ms        simulated milliseconds
    sample        optional dict
"""
import hashlib
import json
import os
import select
import signal
import sys
import time
import traceback

from sim import boot
from sim.core import h64

KNOWN_FILE = os.path.join(boot.VERIF, 'known_findings.json')


# ---------------------------------------------------------------------------------
def _safe_call(fn, args):
    try:
        res = fn(*args)
    except BaseException as e:   # noqa
        res = {'harness_error': ''.join(traceback.format_exception(
            type(e), e, e.__traceback__))[-3000:]}
    try:
        return json.dumps(res, default=str).encode()
    except BaseException as e:   # noqa
        return json.dumps({'harness_error': 'serialise: %r' % (e,)}).encode()


def _worker_loop(fn, arglist, rfd, wfd):
    """Persistent worker: reads run indices, executes them one after the other.
    (Forking one child per run costs 1-2 s of copy-on-write faults per run on this
    machine under 16-way load; isolation between runs is instead provided by the
    Sim.install() resets and is checked by the determinism self-test, and every
    violation is re-confirmed in a fresh forked child before it is reported.)"""
    import faulthandler
    import gc
    faulthandler.enable()
    try:
        tbf = open(os.path.join(boot.scratch_root(), 'tb_%d.txt' % os.getpid()), 'w')
        faulthandler.register(signal.SIGUSR1, file=tbf, all_threads=False)
    except Exception:   # noqa
        pass
    base_limit = sys.getrecursionlimit()
    try:
        while True:
            hdr = os.read(rfd, 8)
            if len(hdr) < 8:
                break
            idx = int.from_bytes(hdr, 'big', signed=True)
            if idx < 0:
                break
            sys.setrecursionlimit(base_limit)
            data = _safe_call(fn, arglist[idx])
            buf = len(data).to_bytes(8, 'big') + data
            off = 0
            while off < len(buf):
                off += os.write(wfd, buf[off:off + (1 << 16)])
            gc.collect()
    finally:
        os._exit(0)


class _Worker:
    def __init__(self, fn, arglist, others):
        p2c_r, p2c_w = os.pipe()
        c2p_r, c2p_w = os.pipe()
        pid = os.fork()
        if pid == 0:
            os.close(p2c_w)
            os.close(c2p_r)
            for o in others:
                for fd in (o.rfd, o.wfd):
                    try:
                        os.close(fd)
                    except OSError:
                        pass
            _worker_loop(fn, arglist, p2c_r, c2p_w)
        os.close(p2c_r)
        os.close(c2p_w)
        self.pid = pid
        self.rfd = c2p_r
        self.wfd = p2c_w
        self.idx = None
        self.start = None
        self.buf = bytearray()
        self.done = 0

    def send(self, idx):
        self.idx = idx
        self.start = time.time()
        self.buf = bytearray()
        os.write(self.wfd, int(idx).to_bytes(8, 'big', signed=True))

    def kill(self):
        try:
            os.kill(self.pid, signal.SIGKILL)
        except ProcessLookupError:
            pass
        self.close()

    def close(self):
        for fd in (self.rfd, self.wfd):
            try:
                os.close(fd)
            except OSError:
                pass
        try:
            os.waitpid(self.pid, 0)
        except ChildProcessError:
            pass


def in_child(fn, args=(), timeout=600):
    """Run fn(*args) in a fresh forked child; return its JSON result."""
    out = run_many(fn, [args], workers=1, timeout=timeout)
    return out[0]


def run_many(fn, arglist, workers=16, timeout=600, wall_s=None, on_result=None,
             recycle=60):
    """Execute fn(*arglist[i]) for every i in persistent forked workers (at most
    `workers`; a worker is replaced after `recycle` runs, after a timeout kill or if it
    dies).  Returns results aligned with arglist (None = not started because the soft
    wall budget ran out)."""
    results = [None] * len(arglist)
    pending = list(range(len(arglist)))[::-1]
    pool = []
    t0 = time.time()
    sys.stdout.flush()
    sys.stderr.flush()

    def finish(w, res):
        res['_wall'] = time.time() - w.start
        results[w.idx] = res
        if on_result:
            on_result(w.idx, res)
        w.idx = None
        w.done += 1

    while True:
        # soft budget: no new run is dispatched after wall_s seconds.  On a machine that is
        # shared with other work (several checks started at once) the same number of seconds
        # buys far fewer runs, so the budget is stretched by the load per core, at most
        # threefold: the planned exploration gets done, the check stays bounded.
        if wall_s is not None and pending and \
                time.time() - t0 > wall_s * min(3.0, max(1.0, _load_factor())):
            pending = []
        # hand out work
        for w in list(pool):
            if w.idx is None:
                if not pending or w.done >= recycle:
                    try:
                        os.write(w.wfd, (-1).to_bytes(8, 'big', signed=True))
                    except OSError:
                        pass
                    w.close()
                    pool.remove(w)
                else:
                    w.send(pending.pop())
        while pending and len(pool) < min(workers, len(pending) + len(pool)):
            w = _Worker(fn, arglist, pool)
            pool.append(w)
            w.send(pending.pop())
            if len(pool) >= workers:
                break
        busy = [w for w in pool if w.idx is not None]
        if not busy and not pending:
            for w in pool:
                try:
                    os.write(w.wfd, (-1).to_bytes(8, 'big', signed=True))
                except OSError:
                    pass
                w.close()
            break
        ready, _, _ = select.select([w.rfd for w in busy], [], [], 0.5)
        now = time.time()
        for w in busy:
            if w.rfd in ready:
                chunk = os.read(w.rfd, 1 << 20)
                if not chunk:       # worker died
                    finish(w, {'harness_error': 'worker died without a record'})
                    w.close()
                    pool.remove(w)
                    continue
                w.buf += chunk
                if len(w.buf) >= 8:
                    need = int.from_bytes(w.buf[:8], 'big')
                    if len(w.buf) >= 8 + need:
                        try:
                            res = json.loads(bytes(w.buf[8:8 + need]).decode())
                        except Exception:   # noqa
                            res = {'harness_error': 'undecodable record'}
                        finish(w, res)
            elif now - w.start > timeout * max(1.0, _load_factor()):
                tb = ''
                try:
                    os.kill(w.pid, signal.SIGUSR1)
                    time.sleep(0.7)
                    with open(os.path.join(boot.scratch_root(), 'tb_%d.txt' % w.pid)) as f:
                        tb = f.read()[:3000]
                except Exception:   # noqa
                    pass
                w.kill()
                pool.remove(w)
                finish(w, {'harness_timeout': True, 'traceback': tb})
    return results


# ---------------------------------------------------------------------------------
def _load_factor():
    """the per-run safety net is a wall-clock limit sized for an idle 16-core machine; when
    other work shares the machine (several checks at once) it is stretched by the load
    per core, so that a slow machine is never mistaken for a hung run"""
    try:
        return os.getloadavg()[0] / float(os.cpu_count() or 1)
    except OSError:
        return 1.0


def load_known(pid):
    try:
        with open(KNOWN_FILE) as f:
            data = json.load(f)
    except FileNotFoundError:
        return []
    return [e for e in data.get('findings', [])
            if e.get('property') == pid and e.get('status') == 'known']


def match_known(known, sig):
    import re
    for e in known:
        if e.get('signature') == sig:
            return e
        pat = e.get('signature_re')
        if pat and re.fullmatch(pat, sig):
            return e
    return None


def sig_hash(sig):
    return hashlib.sha1(sig.encode()).hexdigest()[:12]


def write_replay(pid, sig, plan, violation):
    d = os.path.join(boot.VERIF, 'replays', pid)
    os.makedirs(d, exist_ok=True)
    path = os.path.join(d, sig_hash(sig) + '.json')
    with open(path, 'w') as f:
        json.dump({'property': pid, 'signature': sig, 'violation': violation,
                   'plan': plan}, f, indent=0, default=str)
    return path


# ---------------------------------------------------------------------------------
def run_check(check, tier, seed, out=sys.stdout):
    t0 = time.time()
    T = dict(check.tiers[tier])
    scale = float(os.environ.get('VERIF_BUDGET_SCALE', '1'))
    nruns = max(2, int(T['runs'] * scale))
    workers = int(os.environ.get('VERIF_WORKERS', T.get('workers', 16)))
    timeout = T.get('run_timeout_s', 600)
    run_seeds = [h64(seed, check.ID, i) for i in range(nruns)]
    known = load_known(check.ID)

    agg = {
        'runs': 0, 'status': {}, 'faults': {}, 'probes': {}, 'obligations': {},
        'features': set(), 'sim_ms': 0.0, 'samples': [], 'violations': {},
        'harness_errors': [], 'timeouts': 0, 'not_started': 0, 'digests': hashlib.sha1(),
        'site_features': set(),
    }

    def on_result(idx, res):
        if res.get('harness_timeout'):
            agg['timeouts'] += 1
            agg.setdefault('timeout_info', []).append(
                {'run_seed': run_seeds[idx], 'traceback': res.get('traceback', '')[:2000]})
            agg['runs'] += 1
            agg['status']['harness_timeout'] = agg['status'].get('harness_timeout', 0) + 1
            return
        if 'harness_error' in res:
            agg['harness_errors'].append((run_seeds[idx], res['harness_error']))
            return
        agg['runs'] += 1
        st = res.get('status', 'ok')
        agg['status'][st] = agg['status'].get(st, 0) + 1
        for k in ('faults', 'probes', 'obligations'):
            for n, v in (res.get(k) or {}).items():
                agg[k][n] = agg[k].get(n, 0) + v
        f = res.get('feature')
        if f:
            agg['features'].add(f)
        for sf in res.get('site_features') or ():
            agg['site_features'].add(sf)
        agg['sim_ms'] += res.get('sim_ms', 0)
        if res.get('sample') is not None and len(agg['samples']) < 4:
            s = dict(res['sample'])
            s['run_seed'] = run_seeds[idx]
            agg['samples'].append(s)
        for v in res.get('violations') or ():
            ent = agg['violations'].setdefault(v['sig'], {'count': 0, 'first': None})
            ent['count'] += 1
            if ent['first'] is None or idx < ent['first'][0]:
                ent['first'] = (idx, v, res.get('plan'))
        if hasattr(check, 'collect'):
            check.collect(agg, res)

    arglist = [(rs, None) for rs in run_seeds]
    results = run_many(check.run_one, arglist, workers=workers, timeout=timeout,
                       wall_s=T.get('wall_s'), on_result=on_result)
    agg['not_started'] = sum(1 for r in results if r is None)

    # batch-level oracles
    if hasattr(check, 'finish'):
        for v in check.finish(agg) or ():
            ent = agg['violations'].setdefault(v['sig'], {'count': 0, 'first': None})
            ent['count'] += 1
            if ent['first'] is None:
                ent['first'] = (-1, v, v.get('plan'))

    exit_code = 0
    lines = []
    known_hit = {}
    new = []
    for sig, ent in sorted(agg['violations'].items(), key=lambda kv: kv[1]['first'][0]):
        k = match_known(known, sig)
        if k is not None:
            kh = known_hit.setdefault(k['id'], {'entry': k, 'count': 0, 'sigs': set()})
            kh['count'] += ent['count']
            kh['sigs'].add(sig)
        else:
            new.append((sig, ent))
    for kid, kh in sorted(known_hit.items()):
        lines.append('KNOWN-FINDING: property=%s %s [%s] (seen %d times in this run)' % (
            check.ID, kh['entry']['description'], kid, kh['count']))
        if os.environ.get('VERIF_WRITE_KNOWN_REPLAYS'):
            # maintenance only (tools/refresh_known.py): store a replay of a listed finding
            sig0 = sorted(kh['sigs'])[0]
            idx0, v0, plan0 = agg['violations'][sig0]['first']
            if plan0 is not None:
                d0 = os.path.join(boot.VERIF, 'known_replays')
                os.makedirs(d0, exist_ok=True)
                with open(os.path.join(d0, kid + '.auto.json'), 'w') as f0:
                    json.dump({'property': check.ID, 'signature': sig0, 'violation': v0,
                               'plan': plan0}, f0, default=str)
        # a listed finding is a narrow class with a measured base rate; the same signature
        # occurring an order of magnitude more often is a different violation
        mr = kh['entry'].get('max_rate')
        # (max_rate is about ten times the measured base rate; the allowance adds four standard
        # deviations of a Poisson count at that rate, so that a batch of any size cannot trip
        # the guard by chance)
        lam = (mr or 0) * max(1, agg['runs'])
        if mr and kh['count'] >= kh['entry'].get('min_count', 4) and \
                kh['count'] > lam + 4 * lam ** 0.5 + 2:
            sig0 = sorted(kh['sigs'])[0]
            ent = agg['violations'][sig0]
            v0 = dict(ent['first'][1])
            v0['detail'] = 'known finding %s occurred %d times in %d runs (listed base rate ' \
                           'allows at most %.3f per run); first: %s' % (
                               kid, kh['count'], agg['runs'], mr, v0.get('detail'))
            new.append(('rate|%s' % kid, {'count': kh['count'],
                                          'first': (ent['first'][0], v0, ent['first'][2])}))
    reported = []
    for sig, ent in new[:int(os.environ.get('VERIF_MAX_REPORT', '6'))]:
        idx, v, plan = ent['first']
        if plan is None:
            plan = {'run_seed': run_seeds[idx] if idx >= 0 else None}
        if hasattr(check, 'minimise') and idx >= 0 and not os.environ.get('VERIF_NO_MINIMISE'):
            try:
                plan = check.minimise(plan, sig)
            except Exception as e:   # noqa
                plan['minimise_error'] = repr(e)
        path = write_replay(check.ID, sig, plan, v)
        lines.append('VIOLATION property=%s replay=%s' % (check.ID, path))
        lines.append('  signature: %s' % sig)
        lines.append('  detail: %s' % str(v.get('detail'))[:600])
        reported.append({'sig': sig, 'count': ent['count'], 'replay': path,
                         'detail': str(v.get('detail'))[:400]})
        exit_code = 1
    for sig, ent in new[int(os.environ.get('VERIF_MAX_REPORT', '6')):]:
        lines.append('  (further unreported signature: %s x%d)' % (sig, ent['count']))

    if agg['harness_errors']:
        exit_code = 2 if exit_code == 0 else exit_code
        for rs, he in agg['harness_errors'][:3]:
            lines.append('HARNESS-ERROR run_seed=%s\n%s' % (rs, he))
    if agg['runs'] and agg['timeouts'] > max(3, 0.25 * agg['runs']):
        lines.append('HARNESS-ERROR: %d of %d runs hit the wall-clock safety net' % (
            agg['timeouts'], agg['runs']))
        exit_code = 2 if exit_code == 0 else exit_code
    if agg['runs'] == 0:
        lines.append('HARNESS-ERROR: no run completed')
        exit_code = 2

    wall = time.time() - t0
    ndist = len(agg['features'])
    ev = {
        'property_id': check.ID,
        'tier': tier,
        'seed': int(seed),
        'level': check.LEVEL,
        'coverage': {
            'evaluations': agg['runs'],
            'distinct_nontrivial': ndist,
            'rule': check.RULE,
            'samples': agg['samples'] or [{'note': 'no sample recorded'}],
            'runs_not_started_wall_budget': agg['not_started'],
            'run_status': agg['status'],
            'runs_per_hour': round(agg['runs'] / wall * 3600) if wall > 0 else 0,
            'simulated_time_s': round(agg['sim_ms'] / 1000.0, 1),
            'faults_fired': agg['faults'],
            'probes': agg['probes'],
            'obligations_checked': agg['obligations'],
            'distinct_tape_site_outcomes': len(agg['site_features']),
            'batch_digest': agg['digests'].hexdigest()[:16],
            'components': check.COMPONENTS,
            'known_findings_hit': {k: {'count': v['count'], 'signatures': sorted(v['sigs'])}
                                   for k, v in known_hit.items()},
            'violations_reported': reported,
            'harness_timeouts': agg['timeouts'],
            'harness_timeout_info': agg.get('timeout_info', [])[:3],
            'workers': workers,
        },
        'assumptions': check.ASSUMPTIONS,
        'wall_s': round(wall, 2),
        'violations': len(new),
    }
    zero = [p for p in getattr(check, 'PROBES', ()) if not agg['probes'].get(p)]
    if zero:
        ev['coverage']['probes_never_hit'] = zero
    if hasattr(check, 'extra_evidence'):
        ev['coverage'].update(check.extra_evidence(agg) or {})
    # evidence describes /repo; a run against another tree (VERIF_REPO: seeded changes,
    # mutants) must not overwrite it
    evdir = os.path.join(boot.VERIF, 'evidence') if os.path.realpath(boot.REPO) == '/repo' \
        else os.path.join(boot.VERIF, 'build', 'evidence-other-tree')
    os.makedirs(evdir, exist_ok=True)
    ev['tree'] = boot.REPO
    with open(os.path.join(evdir, check.ID + '.json'), 'w') as f:
        json.dump(ev, f, indent=1, default=str)
    for ln in lines:
        print(ln, file=out)
    print('%s tier=%s seed=%s runs=%d distinct=%d status=%s violations=%d known=%d '
          'wall=%.0fs exit=%d' % (check.ID, tier, seed, ev['coverage']['evaluations'],
                                  ev['coverage']['distinct_nontrivial'], agg['status'],
                                  len(new), len(known_hit), wall, exit_code), file=out)
    return exit_code


def run_replay(check, path, out=sys.stdout):
    with open(path) as f:
        rep = json.load(f)
    plan = rep['plan']
    want = rep.get('signature')
    res = in_child(check.run_one, (plan.get('run_seed'), plan),
                   timeout=check.tiers['thorough'].get('run_timeout_s', 900))
    if 'harness_error' in res or res.get('harness_timeout'):
        print('HARNESS-ERROR during replay: %s' % res.get('harness_error', 'timeout'), file=out)
        return 2
    sigs = [v['sig'] for v in res.get('violations') or ()]
    if want in sigs:
        v = [v for v in res['violations'] if v['sig'] == want][0]
        print('VIOLATION property=%s replay=%s' % (check.ID, path), file=out)
        print('  signature: %s' % want, file=out)
        print('  detail: %s' % str(v.get('detail'))[:800], file=out)
        print('  status=%s digest=%s' % (res.get('status'), res.get('digest')), file=out)
        return 1
    print('replay of %s: recorded signature not observed (status=%s, diverged_at=%s, '
          'observed=%s)' % (path, res.get('status'), res.get('diverged_at'), sigs[:5]), file=out)
    return 0
